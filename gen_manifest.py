#!/usr/bin/env python3
"""Regenerates MANIFEST.json from the table below (kept in one place so the manifest is always valid)."""
import json, sys

CHECKS = {
 "C02": dict(
   text="One accepted Runge-Kutta step from an arbitrary symbolic state on the linear test equation y' = lambda*y (lambda, y, step bounds and tolerance symbolic, the property's coupling |lambda| dt_max <= 2 tol^(1/5) resp. tol^(1/3) as polynomial constraints, the exact flow enclosed by a degree-9 Taylor polynomial with explicit remainder): on every accepting path z3 (nlsat) proves |y_new - e^(lambda h) y| <= 4 tol h. RK23 in the quick tier, RK45 in the thorough tier. Partial: the multistep solvers and non-linear problems are outside. Multistep solvers: Adams3/Adams5 on y' = lambda*y (seeded concrete lambda and step bounds; start, tolerance symbolic) through an accepted start-up and through a REJECTED start-up whose retry factor (tol/2err)^(1/O) stays symbolic: every consecutive pair of yielded points is within 8 tol h + |y||lambda h|^5/20 of the exact flow and time advances; BDF2 likewise (bound 8 tol; all step sizes concrete); on y' = a + b t (a, b, start, tolerance, end time symbolic) every yielded pair of Adams3/5 and BDF6 (RK and BDF2 in the thorough tier) lies on the exact flow.",
   note="Real arithmetic; one-step claim from an arbitrary state for Runge-Kutta; for the multistep solvers seeded concrete lambda and step bounds with a natively calibrated tolerance window (selects the sub-family, decides nothing); quadrature problems of degree >= 2, non-linear right-hand sides and the 1e-13 reference flow are outside.",
   tech="symbolic execution of the real Runge-Kutta, Adams and BDF steppers + SMT (z3 nlsat/simplex) with a Taylor enclosure of the exact flow",
   ref="6/C02"),
 "C04": dict(
   text="Decided parts: a dynamically sized state gives the same path (times, states, number of derivative evaluations) as a statically sized one for an arbitrary right-hand side and symbolic configuration (Euler, Adams3; RK23/RK45 in the thorough tier); the complex problem y' = lambda*y in C^1 and the equivalent real 2x2 system give the same points (Euler; RK23 in the thorough tier) with lambda, start and configuration symbolic; Euler's first-order global bound on y' = lambda*y over 4 steps. The convergence ladders over long intervals are outside the bound. Global accuracy: every yielded state of Adams3/Adams5 on y' = lambda*y is within 8 tol of the true solution at the yielded time, through accepted and rejected start-ups (harness shared with C02). Complex dimension 2: with seeded complex stage directions times two symbolic amplitudes and a symbolic tolerance, every accept/reject decision of RK23 and RK45 agrees (1e-6 relative margin) with the Euclidean norm of the embedded estimate, i.e. with the norm of the equivalent real 4-vector.",
   note="Real arithmetic; prefixes of 2-4 points; tolerance ladders, dimension 3-4 and problem-dependent constants of non-linear problems are outside.",
   tech="symbolic execution of the real steppers at Sym, Complex<Sym>, Const<2> and Dyn + SMT-decided equality of the resulting terms",
   ref="6/C04"),
 "C05": dict(
   text="The one-step controller contract the work bound follows from: for an arbitrary right-hand side and symbolic configuration every Runge-Kutta retry after a rejection uses a step in [0.1, 0.9] x the rejected step (no unbounded run of rejections), growth is at most 4x and capped by dt_max, every attempt costs exactly the stage count; all six adaptive solvers complete solutions at rest and straight-line solutions on short horizons without error, land on the end time with the exact state and spend work proportional to the number of steps; on y' = lambda*y the first trial step is accepted whenever tol >= K |lambda y| |lambda h|^p (estimator order; RK23 quick, all six thorough). Estimator order is also decided for all six solvers on 5 seeded concrete (lambda, h) pairs (|lambda h| from 0.25 down to 0.002) with start value and tolerance symbolic (linear queries).",
   note="Real arithmetic with IEEE semantics for division by a zero error estimate; the global evaluation count over long intervals is the pen-and-paper corollary and is not machine-checked.",
   tech="symbolic execution of the real controllers + SMT (z3 nlsat) per-step contract; DFS over accept/reject patterns",
   ref="6/C05"),
 "C08": dict(
   text="On the sub-class where each method is exact in finitely many steps: affine systems A(x-r) (seeded concrete well-conditioned A, dimension 1-2 quick / 1-3 thorough; root, start, tolerance and finite-difference width symbolic; starts arbitrary, at the origin and exactly on the root) are solved by newton and secant within 4 tol; singular A gives Err; Steffensen returns the fixed point of every affine contraction |a| <= 0.9 down to tol = 1e-13, also when started on it; newton_polynomial returns the root of every degree-1 polynomial from any start. Genuinely non-linear members in one dimension: f(x) = (x-r)(1+c(x-r)) with seeded curvature and root (0, 0.8125, -0.066, 1000, -65536), start r+delta (|delta| <= 0.2) and tolerance symbolic: newton and newton_polynomial (all iterations) and secant (2 loop iterations quick / 3 thorough) return a point within 4 tol (x max(1,|r|) for the Newton variants, whose test is relative) of the root.",
   note="Real arithmetic; non-linear systems of dimension >= 2, non-polynomial non-linearities, polynomials of degree >= 3 and muller_polynomial are outside.",
   tech="symbolic execution of the real iterations (incl. nalgebra LU) + SMT (z3 nlsat/simplex)",
   ref="6/C08"),
 "C17": dict(
   text="linear_fit: normal equations, exact-line reproduction and order independence with symbolic abscissae and ordinates (n <= 4) and seeded abscissae with symbolic ordinates (n <= 24/60); Levenberg-Marquardt on a model linear in its parameters with symbolic data and start: the first trial parameter vector handed to the model closure is proved to be the damped normal-equation step with the true Jacobian (analytic and finite-difference variants), a start at the optimum is returned, invalid tolerance / width / damping / lengths are rejected before any model call. One known finding (finite-difference Jacobian) is reported as KNOWN-FINDING. Damping schedule (analytic variant, 3 seeded damping/multiplier pairs including damping 500): the second iteration's two trial vectors are proved to be the damped normal-equation steps from the first iteration's accepted point with the relaxed damping.",
   note="Real arithmetic; LM to convergence from a start away from the optimum and non-linear models are outside (measured: not viable past 3 iterations).",
   tech="symbolic execution of the real fitting code (incl. nalgebra LU) + SMT (z3 simplex/nlsat); the trial step is observed through the model closure",
   ref="6/C17"),
 "C06": dict(
   text="Every sequence of up to 3 (quick) / 5 (thorough) builder calls over {tolerance, min step, max step, start, end} is executed on each of the seven real builders with UNCONSTRAINED symbolic argument values and compared, branch by branch, with a reference model of the builder contract: z3 proves that a call is rejected exactly when the model says so (dedicated error variant), that min <= max after any order of setters (observed through the first trial step), that complete configurations build and incomplete ones report MissingParameters; static/dynamic misuse is checked for all builders; a derivative function failing at call k (k = 0..15 / 0..47) yields exactly one Err item carrying that error, no further derivative calls, nothing from three more next() calls, and collect_vec returns it.",
   note="Small-scope exhaustive over call sequences; argument values symbolic in [-5,5]; the user-error part runs on a seeded concrete linear problem with symbolic tolerance (concrete for the Runge-Kutta kinds).",
   tech="symbolic execution of the real builders/iterator + SMT-decided branch equivalence with a reference model; fault position enumeration",
   ref="6/C06"),
 "C07": dict(
   text="Symbolic execution of bisection, brent and itp with the function an arbitrary (memoised, bounded) function whose every value is a symbolic variable: for brackets of width <= 2^k tol (bisection: bracket and tolerance symbolic; Brent: bracket in either order; ITP: seeded concrete bracket/parameters) every feasible path is explored and z3 proves that every abscissa handed to the function lies in the closed bracket, that an Ok result lies in the bracket with a recorded sign change (or, Brent, a value below tolerance) within the tolerance (relative to max(1,|x|) for bisection), that the evaluation count is bounded, and that same-sign ends, negative tolerances and illegal ITP parameters give Err.",
   note="Real arithmetic except where constants make rounding visible (ITP's projection radius is concrete); exact zeros at the bracket ends excluded; wider brackets outside; replay uses the continuous piecewise-linear function through the recorded samples.",
   tech="symbolic execution with an uninterpreted (tape) function + SMT (z3 nlsat) over all function values; DFS over sign patterns",
   ref="6/C07"),
 "C09": dict(
   text="On the classes where each routine's stopping rule is provably reliable -- polynomial integrands with all coefficients symbolic, degree <= 3 for the two-consecutive-agreement Gaussian integrators (Legendre on seeded intervals, Laguerre, Hermite, both Chebyshev; real and complex), degree <= 5 for adaptive Simpson, degree <= 2n-1 for Romberg with n rows, degree <= 2 for tanh-sinh -- every path of the real integrator is explored with a symbolic tolerance and z3 proves |result - exact integral| <= K tol on every Ok path, that Err is infeasible where the class guarantees success, a Simpson evaluation bound, and that reversed/empty intervals and negative tolerances give Err (symbolic interval).",
   note="Real arithmetic; exact integrals from closed forms; transcendental integrands and degrees above the class are outside; tanh-sinh only for tol >= 1e-8.",
   tech="symbolic execution of the real integrators + SMT (z3, mostly QF_LRA) over all polynomial coefficients and the tolerance",
   ref="6/C09"),
 "C10": dict(
   text="Every row of the five Gaussian tables is observed through the real integrators: a stateful integrand steers the two-consecutive-agreement exit to the chosen row so that the public function returns Q_row[1 + eps*p]; with all 2n polynomial coefficients symbolic z3 (linear arithmetic over the exact affine form) proves degree-(2n-1) exactness against closed-form moments, that the weights sum to the zeroth moment, strict positivity of every weight (strict monotonicity in arbitrary integrand values), and the run records n distinct nodes inside the domain. The one-point rules are decided through the stopping rule with a symbolic tolerance. tanh-sinh: levels 0..2 against the double-exponential formula.",
   note="Real arithmetic with the tables' exact doubles; moments from closed forms in f64 (1e-15); tolerance 1e-10 x (2n) on normalised monomials; tanh-sinh levels 3..6 are not observable through the public API and are outside the claim.",
   tech="symbolic execution of the real integrators with a steering integrand + SMT (z3, QF_LRA) over all polynomial coefficients",
   ref="6/C10"),
 "C11": dict(
   text="Symbolic execution of every operator impl and of multiply/dft/idft at a symbolic scalar: all owned/borrowed/assigning forms are proved coefficient-wise equal to exact coefficient algebra; products through the scalar, linear-factor and FFT paths are proved equal to the convolution (both operands symbolic up to 5x3, one symbolic x one seeded concrete operand up to transform size 32), with degree = sum of degrees on every feasible path, commutativity, agreement with pointwise products, dft = values at roots of unity and idft(dft) = id; real and complex coefficients.",
   note="Real arithmetic (twiddle factors are the exact doubles); |leading| >= 0.1, coefficients in [-10,10]; transform sizes above 32/64 are outside (measured too slow).",
   tech="symbolic execution at a term-building scalar + SMT (z3: nlsat for bilinear, simplex for linear queries)",
   ref="6/C11"),
 "C12": dict(
   text="Symbolic execution of Polynomial::divide: for fully symbolic dividend and divisor (up to degree 6/3) and symbolic dividend x seeded concrete divisor (up to degree 12/8), on every feasible path (each elimination step forks on whether the leading remainder coefficient is negligible) z3 proves dividend = quotient*divisor + remainder coefficient-wise, deg remainder < deg divisor, the quotient degree, zero remainder for exact multiples, scaling by constant divisors and Err for the zero divisor; complex dividends with concrete complex divisors. ROUNDING MODEL harnesses: with every +,-,*,/ inside divide returning exact*(1+delta), |delta| <= 2^-53 (delta a function of the exact result), dividend coefficients symbolic up to 1e8 and a seeded concrete non-monic divisor (lengths 3/2, 4/3), z3 proves the Euclidean identity up to 64(n+1) eps (|q||d|+|p|+|r|) + 1e-8 on every path, including those where a rounding residue above the zero tolerance makes the same power be eliminated twice.",
   note="Exact real arithmetic in the main harnesses, the standard (1+delta) model without overflow/underflow in the rounding-model harnesses; |leading| >= 0.1; exact multiples restricted to quotients whose coefficients are all non-negligible.",
   tech="symbolic execution at a term-building scalar + SMT (z3 nlsat / simplex), DFS over the negligible-coefficient branches",
   ref="6/C12"),
 "C13": dict(
   text="Symbolic execution of evaluate, evaluate_derivative, derivative, antiderivative, integrate and coefficient access with all coefficients and points symbolic (degree 0..6, complex 1..3): z3 proves the calculus identities of the statement; every sequence of up to 2 (quick) / 3 (thorough) set/purge/purge_leading operations over a power alphabet is executed with symbolic values and symbolic zero tolerance and compared with a reference coefficient map (exactly the addressed power changes, no panic).",
   note="Real arithmetic; small-scope exhaustive enumeration of operation sequences (the integer powers are concrete, the values symbolic).",
   tech="symbolic execution at a term-building scalar + SMT (z3 nlsat); exhaustive small-scope operation sequences",
   ref="6/C13"),
 "C15": dict(
   text="Symbolic execution of interp::lagrange / hermite with seeded concrete nodes (1..6, separation >= 0.2, permuted) and symbolic values, derivatives and zeroing tolerance: on every feasible path (each 'coefficient below tolerance' branch is a fork) z3 proves the degree bound and reproduction of values/derivatives; with data sampled from a symbolic polynomial it proves recovery of its coefficients and independence of the point order; symbolic nodes for n=2, complex nodes n=3, mismatched lengths give Err.",
   note="Real arithmetic; nodes concrete from a seeded family (VERIF_SEED); hermite n=3 uniqueness only in the thorough tier.",
   tech="symbolic execution at a term-building scalar + SMT (z3 simplex/nlsat)",
   ref="6/C15"),
 "C16": dict(
   text="Symbolic execution of spline_free / spline_clamped and CubicSpline::evaluate(_derivative) with seeded concrete knots (2..12, thorough ..40) and symbolic ordinates and end slopes: z3 proves interpolation at every knot, continuity of value, first and second derivative at every interior knot (one-sided limits recovered exactly from samples inside each cubic piece), the end conditions (zero second derivative / prescribed slopes), reproduction of symbolic cubics (clamped) and lines (free), and the Err cases including a symbolic knot order.",
   note="Real arithmetic; knots concrete from a seeded family; uniqueness is implied by the proved spline conditions (the C2 + end-condition system has a unique solution).",
   tech="symbolic execution at a term-building scalar + SMT (z3 simplex over exact affine forms)",
   ref="6/C16"),
 "C18": dict(
   text="All five constructors for every n = 0..20 over real and complex coefficient fields with the zero tolerance symbolic in [1e-14,1e-6]: every comparison against the tolerance is decided by z3, and on every feasible path the degree is n and the coefficients equal the closed-form rationals (computed harness-side in exact 128-bit rational arithmetic) within 4e-13 of the largest coefficient.",
   note="The coefficients themselves are concrete (folded natively in IEEE arithmetic exactly as the f64 instantiation computes them); only the tolerance is symbolic.",
   tech="symbolic execution with a symbolic tolerance + SMT-decided branches; exhaustive over n",
   ref="6/C18"),
 "C01": dict(
   text="Bounded symbolic model checking of the real builders, IVPIterator::next and every stepper's step() instantiated at a symbolic scalar. Explicit solvers: (t0,t1,dt_min,dt_max,tol,y0) all symbolic and the right-hand side an arbitrary bounded function (uninterpreted tape), so every accept/reject/growth/clip pattern is a path whose feasibility z3 decides; implicit (BDF) solvers: seeded concrete affine problems with symbolic start, end and tolerance. Per yielded point z3 proves strict time order, containment in [t0,t1], gap <= dt_max, dimension, and for every completed run that the last point is the end time (Euler: one point per step time before the end). Complete runs on short horizons that straddle the multistep start-up boundaries, plus prefixes of unbounded runs.",
   note="Exact real arithmetic on symbolic values (the 1-ulp landing of fl(t+fl(e-t)) is outside); bounds: horizon <= H*dt_min or first K points, dt_max <= r*dt_min; z3 unsat trusted, sat replayed on native f64.",
   tech="symbolic execution of the real solver code at a term-building scalar; path feasibility and obligations by SMT (z3, QF_LRA/QF_NRA); DFS over decision tapes",
   ref="6/C01"),
 "C03": dict(
   text="Bounded symbolic model checking of the real steppers with an arbitrary right-hand side (uninterpreted tape): for every attempted Runge-Kutta step z3 proves that each stage is evaluated at the published Fehlberg / Bogacki-Shampine node and stage state (tableaux as exact rationals), that an accepted point is the published update and that its embedded estimate is within tolerance; every Adams point is proved to be an RK4 step from the previous point or the AB-predict/AM-correct update of the preceding equally spaced points (derivatives looked up in the call log by solver-entailed argument equality) with estimate within tolerance; every BDF point an RK4 step or a solution of the BDF formula at the new time within tolerance (seeded affine problems, autonomous and non-autonomous); Euler points satisfy y+dt*f.",
   note="Real arithmetic; reference tableaux transcribed by hand from the literature; first 2-3 points per solver (one-step claim from an arbitrary symbolic state), start-up + 2 multistep points; BDF on concrete seeded affine problems only.",
   tech="symbolic execution of the real solver code at a term-building scalar + SMT (z3 nlsat) equivalence with rational reference formulas",
   ref="6/C03"),
 "C19": dict(
   text="Bounded symbolic model checking of the real differentiate::derivative / second_derivative code instantiated at a symbolic scalar: for polynomial degree 0..5 with ALL coefficients, the point and the step symbolic over their boxes, z3 (nlsat) proves the stencil result equals the exact derivative (degree<=4 / <=3) and the exact leading error term just above; linearity is proved for arbitrary functions (uninterpreted tapes). Complete for the stated boxes in exact real arithmetic; rounding is outside.",
   note="Real arithmetic on symbolic values (constants are the exact IEEE doubles); z3 4.8.12 unsat verdicts trusted; sat verdicts must replay on the native f64 build.",
   tech="symbolic execution of the real generic code at a term-building scalar + SMT (z3 nlsat, QF_NRA) over all inputs in a box",
   ref="6/C19"),
}

NOT_APPLICABLE = [
 {"property_id": "C14", "reason": "For degree >= 3 the result is the limit of Laguerre iteration (complex square roots via atan2/cos/sin), deflation and Newton polishing: the iterates are nested rational-transcendental functions of the coefficients, there is no finitely-exact sub-class, so symbolic coefficients give the solver only uninterpreted terms and concrete coefficients make the run a unit test; solver-based checking cannot decide it (DESIGN.md section 7)."},
 {"property_id": "C20", "reason": "A finite ground comparison of 354 generated rows and ~25 literals with a text file: there is no input, schedule or history to make symbolic and the generating code is a build-script main with no callable unit; a solver query would be constant evaluation, i.e. a unit test in SMT-LIB clothing (DESIGN.md section 7)."},
]

def main():
    checks = []
    for pid in sorted(CHECKS):
        c = CHECKS[pid]
        checks.append({
            "property_id": pid,
            "quick_cmd": f"./check {pid} --tier quick",
            "thorough_cmd": f"./check {pid} --tier thorough",
            "evidence_file": f"/verif/evidence/{pid}.json",
            "replay_cmd_template": f"./check {pid} --replay {{path}}",
            "engine": c.get("engine", "symx"),
            "level_claimed": {"category": "model_checking", "text": c["text"], "design_ref": c["ref"]},
            "level_note": c["note"],
            "technique": c["tech"],
        })
    m = {
        "version": 1,
        "setup_cmd": "cd /verif/symx && CARGO_NET_OFFLINE=true cargo build --release",
        "hooks": {
            "guard": "bacon_verif",
            "enable": "none needed: the checks reach all code through the public API instantiated at a symbolic scalar type (RUSTFLAGS=\"--cfg bacon_verif\" is reserved and unused)",
            "baseline_off_cmd": "cd /repo && cargo test --workspace --no-fail-fast --offline",
            "source_commits": [],
            "add_only": True,
        },
        "engines": [
            {"name": "symx", "path": "/verif/symx", "serves_properties": sorted(CHECKS),
             "kind_free_text": "symbolic execution of the real bacon code instantiated at a term-building scalar; path feasibility and obligations decided by z3 (Real arithmetic); counterexamples replayed on the native f64 build"},
        ],
        "checks": checks,
        "notes": "Solver-based bounded checking; bounds, boxes and what lies outside them are listed per property in DESIGN.md section 6 and in each evidence file.",
        "not_applicable": NOT_APPLICABLE,
    }
    json.dump(m, open("/verif/MANIFEST.json", "w"), indent=1)
    print("MANIFEST.json written:", len(checks), "checks,", len(NOT_APPLICABLE), "not applicable")

if __name__ == "__main__":
    main()
