#!/usr/bin/env python3
"""Regenerates MANIFEST.json from the table below (kept in one place so the manifest is always valid)."""
import json, sys

CHECKS = {
 "C19": dict(
   text="Bounded symbolic model checking of the real differentiate::derivative / second_derivative code instantiated at a symbolic scalar: for polynomial degree 0..5 with ALL coefficients, the point and the step symbolic over their boxes, z3 (nlsat) proves the stencil result equals the exact derivative (degree<=4 / <=3) and the exact leading error term just above; linearity is proved for arbitrary functions (uninterpreted tapes). Complete for the stated boxes in exact real arithmetic; rounding is outside.",
   note="Real arithmetic on symbolic values (constants are the exact IEEE doubles); z3 4.8.12 unsat verdicts trusted; sat verdicts must replay on the native f64 build.",
   tech="symbolic execution of the real generic code at a term-building scalar + SMT (z3 nlsat, QF_NRA) over all inputs in a box",
   ref="6/C19"),
}

NOT_APPLICABLE = [
]

def main():
    checks = []
    for pid in sorted(CHECKS):
        c = CHECKS[pid]
        checks.append({
            "property_id": pid,
            "quick_cmd": f"./check {pid} --tier quick",
            "thorough_cmd": f"./check {pid} --tier thorough",
            "evidence_file": f"/verif/evidence/{pid}.json",
            "replay_cmd_template": f"./check {pid} --replay {{path}}",
            "engine": c.get("engine", "symx"),
            "level_claimed": {"category": "model_checking", "text": c["text"], "design_ref": c["ref"]},
            "level_note": c["note"],
            "technique": c["tech"],
        })
    m = {
        "version": 1,
        "setup_cmd": "cd /verif/symx && CARGO_NET_OFFLINE=true cargo build --release",
        "hooks": {
            "guard": "bacon_verif",
            "enable": "none needed: the checks reach all code through the public API instantiated at a symbolic scalar type (RUSTFLAGS=\"--cfg bacon_verif\" is reserved and unused)",
            "baseline_off_cmd": "cd /repo && cargo test --workspace --no-fail-fast --offline",
            "source_commits": [],
            "add_only": True,
        },
        "engines": [
            {"name": "symx", "path": "/verif/symx", "serves_properties": sorted(CHECKS),
             "kind_free_text": "symbolic execution of the real bacon code instantiated at a term-building scalar; path feasibility and obligations decided by z3 (Real arithmetic); counterexamples replayed on the native f64 build"},
        ],
        "checks": checks,
        "notes": "Solver-based bounded checking; bounds, boxes and what lies outside them are listed per property in DESIGN.md section 6 and in each evidence file.",
        "not_applicable": NOT_APPLICABLE,
    }
    json.dump(m, open("/verif/MANIFEST.json", "w"), indent=1)
    print("MANIFEST.json written:", len(checks), "checks,", len(NOT_APPLICABLE), "not applicable")

if __name__ == "__main__":
    main()
