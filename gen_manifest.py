#!/usr/bin/env python3
"""Regenerates MANIFEST.json from the table below (kept in one place so the manifest is always valid)."""
import json, sys

CHECKS = {
 "C01": dict(
   text="Bounded symbolic model checking of the real builders, IVPIterator::next and every stepper's step() instantiated at a symbolic scalar. Explicit solvers: (t0,t1,dt_min,dt_max,tol,y0) all symbolic and the right-hand side an arbitrary bounded function (uninterpreted tape), so every accept/reject/growth/clip pattern is a path whose feasibility z3 decides; implicit (BDF) solvers: seeded concrete affine problems with symbolic start, end and tolerance. Per yielded point z3 proves strict time order, containment in [t0,t1], gap <= dt_max, dimension, and for every completed run that the last point is the end time (Euler: one point per step time before the end). Complete runs on short horizons that straddle the multistep start-up boundaries, plus prefixes of unbounded runs.",
   note="Exact real arithmetic on symbolic values (the 1-ulp landing of fl(t+fl(e-t)) is outside); bounds: horizon <= H*dt_min or first K points, dt_max <= r*dt_min; z3 unsat trusted, sat replayed on native f64.",
   tech="symbolic execution of the real solver code at a term-building scalar; path feasibility and obligations by SMT (z3, QF_LRA/QF_NRA); DFS over decision tapes",
   ref="6/C01"),
 "C03": dict(
   text="Bounded symbolic model checking of the real steppers with an arbitrary right-hand side (uninterpreted tape): for every attempted Runge-Kutta step z3 proves that each stage is evaluated at the published Fehlberg / Bogacki-Shampine node and stage state (tableaux as exact rationals), that an accepted point is the published update and that its embedded estimate is within tolerance; every Adams point is proved to be an RK4 step from the previous point or the AB-predict/AM-correct update of the preceding equally spaced points (derivatives looked up in the call log by solver-entailed argument equality) with estimate within tolerance; every BDF point an RK4 step or a solution of the BDF formula at the new time within tolerance (seeded affine problems, autonomous and non-autonomous); Euler points satisfy y+dt*f.",
   note="Real arithmetic; reference tableaux transcribed by hand from the literature; first 2-3 points per solver (one-step claim from an arbitrary symbolic state), start-up + 2 multistep points; BDF on concrete seeded affine problems only.",
   tech="symbolic execution of the real solver code at a term-building scalar + SMT (z3 nlsat) equivalence with rational reference formulas",
   ref="6/C03"),
 "C19": dict(
   text="Bounded symbolic model checking of the real differentiate::derivative / second_derivative code instantiated at a symbolic scalar: for polynomial degree 0..5 with ALL coefficients, the point and the step symbolic over their boxes, z3 (nlsat) proves the stencil result equals the exact derivative (degree<=4 / <=3) and the exact leading error term just above; linearity is proved for arbitrary functions (uninterpreted tapes). Complete for the stated boxes in exact real arithmetic; rounding is outside.",
   note="Real arithmetic on symbolic values (constants are the exact IEEE doubles); z3 4.8.12 unsat verdicts trusted; sat verdicts must replay on the native f64 build.",
   tech="symbolic execution of the real generic code at a term-building scalar + SMT (z3 nlsat, QF_NRA) over all inputs in a box",
   ref="6/C19"),
}

NOT_APPLICABLE = [
]

def main():
    checks = []
    for pid in sorted(CHECKS):
        c = CHECKS[pid]
        checks.append({
            "property_id": pid,
            "quick_cmd": f"./check {pid} --tier quick",
            "thorough_cmd": f"./check {pid} --tier thorough",
            "evidence_file": f"/verif/evidence/{pid}.json",
            "replay_cmd_template": f"./check {pid} --replay {{path}}",
            "engine": c.get("engine", "symx"),
            "level_claimed": {"category": "model_checking", "text": c["text"], "design_ref": c["ref"]},
            "level_note": c["note"],
            "technique": c["tech"],
        })
    m = {
        "version": 1,
        "setup_cmd": "cd /verif/symx && CARGO_NET_OFFLINE=true cargo build --release",
        "hooks": {
            "guard": "bacon_verif",
            "enable": "none needed: the checks reach all code through the public API instantiated at a symbolic scalar type (RUSTFLAGS=\"--cfg bacon_verif\" is reserved and unused)",
            "baseline_off_cmd": "cd /repo && cargo test --workspace --no-fail-fast --offline",
            "source_commits": [],
            "add_only": True,
        },
        "engines": [
            {"name": "symx", "path": "/verif/symx", "serves_properties": sorted(CHECKS),
             "kind_free_text": "symbolic execution of the real bacon code instantiated at a term-building scalar; path feasibility and obligations decided by z3 (Real arithmetic); counterexamples replayed on the native f64 build"},
        ],
        "checks": checks,
        "notes": "Solver-based bounded checking; bounds, boxes and what lies outside them are listed per property in DESIGN.md section 6 and in each evidence file.",
        "not_applicable": NOT_APPLICABLE,
    }
    json.dump(m, open("/verif/MANIFEST.json", "w"), indent=1)
    print("MANIFEST.json written:", len(checks), "checks,", len(NOT_APPLICABLE), "not applicable")

if __name__ == "__main__":
    main()
