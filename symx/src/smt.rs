//! SMT-LIB2 emission for arena terms (Real arithmetic, exact rationals for
//! IEEE constants) and solver process management (z3 / z3-new / cvc5 over
//! stdin, hard wall-clock kill on overrun).

use crate::arena::*;
use crate::big::Dy;
use std::collections::{BTreeSet, HashMap};
use std::fmt::Write as _;
use std::io::{BufRead, BufReader, Write};
use std::process::{Child, ChildStdin, Command, Stdio};
use std::sync::mpsc::{channel, Receiver, RecvTimeoutError};
use std::time::{Duration, Instant};

#[derive(Clone, Copy, PartialEq, Eq, Debug)]
pub enum Verdict {
    Sat,
    Unsat,
    Unknown,
}

// ---------------------------------------------------------------------
// exact rational printing of doubles

fn big_mul_small(d: &mut Vec<u32>, m: u32) {
    // d: little-endian base 1e9 digits
    let mut carry: u64 = 0;
    for x in d.iter_mut() {
        let v = (*x as u64) * (m as u64) + carry;
        *x = (v % 1_000_000_000) as u32;
        carry = v / 1_000_000_000;
    }
    while carry > 0 {
        d.push((carry % 1_000_000_000) as u32);
        carry /= 1_000_000_000;
    }
}

fn big_to_string(d: &[u32]) -> String {
    let mut s = String::new();
    let mut first = true;
    for x in d.iter().rev() {
        if first {
            write!(s, "{}", x).unwrap();
            first = false;
        } else {
            write!(s, "{:09}", x).unwrap();
        }
    }
    if s.is_empty() {
        s.push('0');
    }
    s
}

fn big_from_u64(mut v: u64) -> Vec<u32> {
    let mut d = vec![];
    if v == 0 {
        d.push(0);
    }
    while v > 0 {
        d.push((v % 1_000_000_000) as u32);
        v /= 1_000_000_000;
    }
    d
}

fn pow2_string(mant: u64, e: u32) -> String {
    let mut d = big_from_u64(mant);
    let mut k = e;
    while k >= 29 {
        big_mul_small(&mut d, 1 << 29);
        k -= 29;
    }
    if k > 0 {
        big_mul_small(&mut d, 1 << k);
    }
    big_to_string(&d)
}

/// exact SMT-LIB Real literal for a finite double
pub fn real_lit(x: f64) -> String {
    if x == 0.0 {
        return "0.0".to_string();
    }
    if !x.is_finite() {
        // never legitimately reached in a decided query: caller marks query inconclusive
        return "nonfinite".to_string();
    }
    let bits = x.to_bits();
    let neg = (bits >> 63) != 0;
    let exp = ((bits >> 52) & 0x7ff) as i64;
    let frac = bits & ((1u64 << 52) - 1);
    let (mut mant, mut e) = if exp == 0 { (frac, -1074i64) } else { (frac | (1u64 << 52), exp - 1075) };
    while mant & 1 == 0 {
        mant >>= 1;
        e += 1;
    }
    let body = if e >= 0 {
        format!("{}.0", pow2_string(mant, e as u32))
    } else {
        format!("(/ {}.0 {}.0)", mant, pow2_string(1, (-e) as u32))
    };
    if neg {
        format!("(- {})", body)
    } else {
        body
    }
}

pub fn rat_lit(p: i64, q: i64) -> String {
    let (p, q) = if q < 0 { (-p, -q) } else { (p, q) };
    let body = if q == 1 { format!("{}.0", p.abs()) } else { format!("(/ {}.0 {}.0)", p.abs(), q) };
    if p < 0 {
        format!("(- {})", body)
    } else {
        body
    }
}

// ---------------------------------------------------------------------
// query emission
//
// Every term is first brought into an exact affine normal form over "atoms" (input variables and
// opaque non-affine sub-terms) with dyadic-rational coefficients, so that the solver sees flat
// linear expressions instead of thousands of definitional equalities.

const NODE_ATOM: u32 = 1 << 30;

#[derive(Clone, Debug, PartialEq, Eq, Hash)]
pub struct Aff {
    pub c0: Dy,
    /// (atom key, coefficient), sorted by key; keys < 2^30 are variables, others are opaque nodes
    pub terms: Vec<(u32, Dy)>,
}

impl Aff {
    fn konst(c: Dy) -> Aff {
        Aff { c0: c, terms: vec![] }
    }
    fn atom(k: u32) -> Aff {
        Aff { c0: Dy::zero(), terms: vec![(k, Dy::one())] }
    }
    fn scale(&self, c: &Dy) -> Aff {
        if c.is_zero() {
            return Aff::konst(Dy::zero());
        }
        Aff { c0: self.c0.mul(c), terms: self.terms.iter().map(|(k, d)| (*k, d.mul(c))).collect() }
    }
    fn add(&self, o: &Aff, sign_neg: bool) -> Aff {
        let mut out = Vec::with_capacity(self.terms.len() + o.terms.len());
        let (mut i, mut j) = (0, 0);
        while i < self.terms.len() || j < o.terms.len() {
            if j >= o.terms.len() || (i < self.terms.len() && self.terms[i].0 < o.terms[j].0) {
                out.push(self.terms[i].clone());
                i += 1;
            } else if i >= self.terms.len() || o.terms[j].0 < self.terms[i].0 {
                let d = if sign_neg { o.terms[j].1.neg() } else { o.terms[j].1.clone() };
                out.push((o.terms[j].0, d));
                j += 1;
            } else {
                let d = if sign_neg { o.terms[j].1.neg() } else { o.terms[j].1.clone() };
                let s = self.terms[i].1.add(&d);
                if !s.is_zero() {
                    out.push((self.terms[i].0, s));
                }
                i += 1;
                j += 1;
            }
        }
        let c = if sign_neg { o.c0.neg() } else { o.c0.clone() };
        Aff { c0: self.c0.add(&c), terms: out }
    }
    pub fn is_const(&self) -> bool {
        self.terms.is_empty()
    }
}

fn atom_name(k: u32) -> String {
    if k >= NODE_ATOM {
        format!("n{}", k - NODE_ATOM)
    } else {
        format!("v{}", k)
    }
}

pub fn aff_str(a: &Aff) -> String {
    if a.terms.is_empty() {
        return a.c0.smt();
    }
    let mut parts: Vec<String> = vec![];
    if !a.c0.is_zero() {
        parts.push(a.c0.smt());
    }
    for (k, d) in &a.terms {
        if *d == Dy::one() {
            parts.push(atom_name(*k));
        } else {
            parts.push(format!("(* {} {})", d.smt(), atom_name(*k)));
        }
    }
    if parts.len() == 1 {
        parts.pop().unwrap()
    } else {
        format!("(+ {})", parts.join(" "))
    }
}

pub struct Emit<'a> {
    pub arena: &'a Arena,
    need_nodes: BTreeSet<u32>,
    need_atoms: BTreeSet<u32>,
    need_sign: BTreeSet<u32>,
    pub used_vars: BTreeSet<u32>,
    pub has_nonfinite: bool,
    pub nonlinear: bool,
}

impl<'a> Emit<'a> {
    pub fn new(arena: &'a Arena) -> Self {
        Emit {
            arena,
            need_nodes: BTreeSet::new(),
            need_atoms: BTreeSet::new(),
            need_sign: BTreeSet::new(),
            used_vars: BTreeSet::new(),
            has_nonfinite: false,
            nonlinear: false,
        }
    }

    /// exact affine normal form of a term (memoised in the arena)
    pub fn aff(&self, id: u32) -> std::rc::Rc<Aff> {
        if let Some(a) = self.arena.aff_cache.borrow().get(&id) {
            return a.clone();
        }
        // iterative post-order: children have smaller ids
        let mut stack = vec![id];
        while let Some(&n) = stack.last() {
            if self.arena.aff_cache.borrow().contains_key(&n) {
                stack.pop();
                continue;
            }
            let node = &self.arena.nodes[n as usize];
            let kids: Vec<u32> = match node {
                Node::Un(_, a) => vec![*a],
                Node::Bin(_, a, b) => vec![*a, *b],
                Node::Powi(a, _) | Node::Root(a, _) => vec![*a],
                _ => vec![],
            };
            let missing: Vec<u32> = kids.iter().cloned().filter(|k| !self.arena.aff_cache.borrow().contains_key(k)).collect();
            if !missing.is_empty() {
                stack.extend(missing);
                continue;
            }
            let get = |k: u32| self.arena.aff_cache.borrow().get(&k).unwrap().clone();
            let a: Aff = match node {
                Node::Const(b) => match Dy::from_f64(f64::from_bits(*b)) {
                    Some(d) => Aff::konst(d),
                    None => Aff::atom(NODE_ATOM | n),
                },
                Node::Rat(p, q) => {
                    let qa = q.unsigned_abs();
                    if qa.is_power_of_two() {
                        let mut d = Dy { neg: (*p < 0) != (*q < 0), mant: crate::big::BigU::from_u64(p.unsigned_abs()), exp: -(qa.trailing_zeros() as i32) };
                        d.normalize();
                        Aff::konst(d)
                    } else {
                        Aff::atom(NODE_ATOM | n)
                    }
                }
                Node::Var(v) => Aff::atom(*v),
                Node::Un(U::Neg, a) => get(*a).scale(&Dy::one().neg()),
                Node::Bin(B::Add, a, b) => get(*a).add(&get(*b), false),
                Node::Bin(B::Sub, a, b) => get(*a).add(&get(*b), true),
                Node::Bin(B::Mul, a, b) => {
                    let (x, y) = (get(*a), get(*b));
                    if x.is_const() {
                        y.scale(&x.c0)
                    } else if y.is_const() {
                        x.scale(&y.c0)
                    } else {
                        Aff::atom(NODE_ATOM | self.canonical(n))
                    }
                }
                Node::Bin(B::Div, a, b) => {
                    let (x, y) = (get(*a), get(*b));
                    if y.is_const() && !y.c0.is_zero() && y.c0.mant == crate::big::BigU::from_u64(1) {
                        // division by +-2^k is exact
                        let inv = Dy { neg: y.c0.neg, mant: crate::big::BigU::from_u64(1), exp: -y.c0.exp };
                        x.scale(&inv)
                    } else {
                        Aff::atom(NODE_ATOM | self.canonical(n))
                    }
                }
                Node::Un(_, _) | Node::Bin(_, _, _) | Node::Powi(_, _) | Node::Root(_, _) => Aff::atom(NODE_ATOM | self.canonical(n)),
                _ => Aff::atom(NODE_ATOM | n),
            };
            self.arena.aff_cache.borrow_mut().insert(n, std::rc::Rc::new(a));
            stack.pop();
        }
        self.arena.aff_cache.borrow().get(&id).unwrap().clone()
    }


    /// representative of an opaque node: an earlier node with the same operator whose operands have the same
    /// affine normal forms (operands' forms must already be cached).  Sound: equal normal forms denote equal reals.
    fn canonical(&self, n: u32) -> u32 {
        use std::hash::{Hash, Hasher};
        let cache = self.arena.aff_cache.borrow();
        let shape = |m: u32| -> Option<(u32, i64, Vec<std::rc::Rc<Aff>>)> {
            let g = |k: &u32| cache.get(k).cloned();
            Some(match &self.arena.nodes[m as usize] {
                Node::Un(op, a) => (1, *op as i64, vec![g(a)?]),
                Node::Bin(op, a, b) => {
                    let (mut x, mut y) = (g(a)?, g(b)?);
                    if matches!(op, B::Add | B::Mul | B::Min | B::Max) {
                        let mut hx = std::collections::hash_map::DefaultHasher::new();
                        let mut hy = std::collections::hash_map::DefaultHasher::new();
                        x.hash(&mut hx);
                        y.hash(&mut hy);
                        if hx.finish() > hy.finish() {
                            std::mem::swap(&mut x, &mut y);
                        }
                    }
                    (2, *op as i64, vec![x, y])
                }
                Node::Powi(a, k) => (3, *k as i64, vec![g(a)?]),
                Node::Root(a, k) => (4, *k as i64, vec![g(a)?]),
                _ => return None,
            })
        };
        let sh = match shape(n) {
            Some(s) => s,
            None => return n,
        };
        let mut h = std::collections::hash_map::DefaultHasher::new();
        sh.0.hash(&mut h);
        sh.1.hash(&mut h);
        for a in &sh.2 {
            a.hash(&mut h);
        }
        let key = h.finish();
        let mut canon = self.arena.canon.borrow_mut();
        let reps = canon.entry(key).or_default();
        for &r in reps.iter() {
            if r == n {
                return r;
            }
            if let Some(rs) = shape(r) {
                if rs.0 == sh.0 && rs.1 == sh.1 && rs.2.len() == sh.2.len() && rs.2.iter().zip(sh.2.iter()).all(|(p, q)| **p == **q) {
                    return r;
                }
            }
        }
        reps.push(n);
        n
    }

    fn is_rat_atom(&self, id: u32) -> bool {
        matches!(self.arena.nodes[id as usize], Node::Rat(_, _))
    }

    fn visit_node(&mut self, id: u32) {
        let mut work = vec![id];
        while let Some(n) = work.pop() {
            if !self.need_nodes.insert(n) {
                continue;
            }
            let a = self.aff(n);
            for (k, _) in a.terms.iter() {
                if *k < NODE_ATOM {
                    self.used_vars.insert(*k);
                    continue;
                }
                let m = *k - NODE_ATOM;
                if !self.need_atoms.insert(m) {
                    continue;
                }
                self.need_nodes.insert(m);
                match &self.arena.nodes[m as usize] {
                    Node::Const(_) => self.has_nonfinite = true,
                    Node::Rat(_, _) | Node::Var(_) => {}
                    Node::Un(op, x) => {
                        match op {
                            U::Abs | U::Signum => {}
                            _ => self.nonlinear = true,
                        }
                        work.push(*x);
                    }
                    Node::Powi(x, _) | Node::Root(x, _) => {
                        self.nonlinear = true;
                        work.push(*x);
                    }
                    Node::Bin(op, x, y) => {
                        match op {
                            B::Min | B::Max => {}
                            B::Div => {
                                if !self.aff(*y).is_const() && !self.is_rat_atom(*y) {
                                    self.nonlinear = true;
                                }
                            }
                            B::Mul => {
                                // a non-dyadic exact rational times a term is still linear
                                if !self.is_rat_atom(*x) && !self.is_rat_atom(*y) {
                                    self.nonlinear = true;
                                }
                            }
                            _ => self.nonlinear = true,
                        }
                        work.push(*x);
                        work.push(*y);
                    }
                    Node::Ite(c, x, y) => {
                        let c = *c;
                        work.push(*x);
                        work.push(*y);
                        self.visit_cond(c);
                    }
                }
            }
        }
    }

    pub fn visit_term(&mut self, id: u32) {
        self.visit_node(id)
    }

    pub fn visit_cond(&mut self, c: u32) {
        match self.arena.conds[c as usize].clone() {
            CNode::True | CNode::False => {}
            CNode::Lt(a, b) | CNode::Le(a, b) | CNode::Eq(a, b) => {
                self.visit_node(a);
                self.visit_node(b);
            }
            CNode::Not(i) => self.visit_cond(i),
            CNode::And(a, b) | CNode::Or(a, b) => {
                self.visit_cond(a);
                self.visit_cond(b);
            }
            CNode::SignBit(n) => {
                self.need_sign.insert(n);
                self.visit_node(n);
            }
        }
    }

    /// coefficients longer than 64 bits are truncated to 60 bits; the total truncation error over the
    /// variables' boxes is returned as an exact upper bound (None: nothing to shorten or an atom is unbounded)
    fn shortened(&self, a: &Aff) -> Option<(Aff, Dy)> {
        const KEEP: u32 = 60;
        if a.c0.mant.bit_len() <= 64 && a.terms.iter().all(|(_, d)| d.mant.bit_len() <= 64) {
            return None;
        }
        let mut err = Dy::zero();
        let mut out = Aff { c0: a.c0.clone(), terms: Vec::with_capacity(a.terms.len()) };
        if let Some((r, e)) = a.c0.shorten(KEEP) {
            out.c0 = r;
            err = err.add(&e);
        }
        for (k, d) in &a.terms {
            match d.shorten(KEEP) {
                None => out.terms.push((*k, d.clone())),
                Some((r, e)) => {
                    if *k >= NODE_ATOM {
                        return None;
                    }
                    let vi = &self.arena.vars[*k as usize];
                    let (lo, hi) = (vi.lo?, vi.hi?);
                    let m = Dy::from_f64(lo.abs().max(hi.abs()))?;
                    err = err.add(&e.mul(&m));
                    if !r.is_zero() {
                        out.terms.push((*k, r));
                    }
                }
            }
        }
        Some((out, err.round_up_abs(30)))
    }

    fn nref(&self, id: u32) -> String {
        let a = self.aff(id);
        if a.terms.is_empty() {
            return a.c0.smt();
        }
        if a.terms.len() == 1 && a.c0.is_zero() && a.terms[0].1 == Dy::one() {
            let k = a.terms[0].0;
            if k >= NODE_ATOM {
                if let Node::Rat(p, q) = &self.arena.nodes[(k - NODE_ATOM) as usize] {
                    return rat_lit(*p, *q);
                }
            }
            return atom_name(k);
        }
        if a.terms.len() <= 2 {
            return aff_str(&a);
        }
        format!("e{}", id)
    }

    pub fn nref_pub(&self, id: u32) -> String {
        self.nref(id)
    }

    pub fn cond_str(&self, c: u32) -> String {
        match &self.arena.conds[c as usize] {
            CNode::True => "true".into(),
            CNode::False => "false".into(),
            CNode::Lt(a, b) => format!("(< {} {})", self.nref(*a), self.nref(*b)),
            CNode::Le(a, b) => format!("(<= {} {})", self.nref(*a), self.nref(*b)),
            CNode::Eq(a, b) => format!("(= {} {})", self.nref(*a), self.nref(*b)),
            CNode::Not(i) => format!("(not {})", self.cond_str(*i)),
            CNode::And(a, b) => format!("(and {} {})", self.cond_str(*a), self.cond_str(*b)),
            CNode::Or(a, b) => format!("(or {} {})", self.cond_str(*a), self.cond_str(*b)),
            CNode::SignBit(n) => format!("sb{}", n),
        }
    }

    /// declarations + definitions + variable bounds + axioms for everything visited
    pub fn preamble(&self) -> String {
        let mut s = String::new();
        let mut ufs: BTreeSet<&'static str> = BTreeSet::new();
        let mut uf2: BTreeSet<&'static str> = BTreeSet::new();
        for &n in &self.need_atoms {
            match &self.arena.nodes[n as usize] {
                Node::Un(op, _) => match op {
                    U::Neg | U::Abs | U::Sqrt | U::Signum | U::Floor | U::Ceil | U::Round | U::Trunc => {}
                    _ => {
                        ufs.insert(op.name());
                    }
                },
                Node::Bin(op, _, _) => match op {
                    B::Powf => {
                        uf2.insert("powf");
                    }
                    B::Atan2 => {
                        uf2.insert("atan2");
                    }
                    B::Rem => {
                        uf2.insert("frem");
                    }
                    _ => {}
                },
                _ => {}
            }
        }
        for f in &ufs {
            writeln!(s, "(declare-fun uf_{} (Real) Real)", f).unwrap();
        }
        for f in &uf2 {
            writeln!(s, "(declare-fun uf_{} (Real Real) Real)", f).unwrap();
        }
        for &v in &self.used_vars {
            writeln!(s, "(declare-const v{} Real)", v).unwrap();
            let vi = &self.arena.vars[v as usize];
            if let Some(lo) = vi.lo {
                writeln!(s, "(assert (>= v{} {}))", v, real_lit(lo)).unwrap();
            }
            if let Some(hi) = vi.hi {
                writeln!(s, "(assert (<= v{} {}))", v, real_lit(hi)).unwrap();
            }
        }
        for &n in &self.need_sign {
            writeln!(s, "(declare-const sb{} Bool)", n).unwrap();
        }
        for &n in &self.need_atoms {
            if let Node::Un(U::Signum, _) = &self.arena.nodes[n as usize] {
                writeln!(s, "(declare-const sgz{} Bool)", n).unwrap();
            }
        }
        // all opaque atoms are declared up front: a canonical representative may have a larger id than a node
        // whose normal form mentions it
        for &n in &self.need_atoms {
            match &self.arena.nodes[n as usize] {
                Node::Rat(p, q) => writeln!(s, "(define-fun n{} () Real {})", n, rat_lit(*p, *q)).unwrap(),
                Node::Const(_) | Node::Var(_) => {}
                _ => writeln!(s, "(declare-const n{} Real)", n).unwrap(),
            }
        }
        // nodes in increasing id order: children (smaller ids) are defined before their users
        for &n in &self.need_nodes {
            if self.need_atoms.contains(&n) {
                let node = &self.arena.nodes[n as usize];
                match node {
                    Node::Rat(_, _) | Node::Const(_) | Node::Var(_) => continue,
                    _ => {}
                }
                match node {
                    Node::Un(op, a) => {
                        let x = self.nref(*a);
                        match op {
                            U::Neg => writeln!(s, "(assert (= n{} (- {})))", n, x).unwrap(),
                            U::Abs => writeln!(s, "(assert (= n{} (ite (>= {} 0.0) {} (- {}))))", n, x, x, x).unwrap(),
                            U::Signum => writeln!(s, "(assert (= n{} (ite (> {} 0.0) 1.0 (ite (< {} 0.0) (- 1.0) (ite sgz{} 1.0 (- 1.0))))))", n, x, x, n).unwrap(),
                            U::Sqrt => writeln!(s, "(assert (=> (>= {} 0.0) (and (>= n{} 0.0) (= (* n{} n{}) {}))))", x, n, n, n, x).unwrap(),
                            U::Floor => writeln!(s, "(assert (= n{} (to_real (to_int {}))))", n, x).unwrap(),
                            U::Ceil => writeln!(s, "(assert (= n{} (- (to_real (to_int (- {}))))))", n, x).unwrap(),
                            U::Trunc => writeln!(s, "(assert (= n{} (ite (>= {} 0.0) (to_real (to_int {})) (- (to_real (to_int (- {})))))))", n, x, x, x).unwrap(),
                            U::Round => writeln!(s, "(assert (= n{} (ite (>= {} 0.0) (to_real (to_int (+ {} 0.5))) (- (to_real (to_int (+ (- {}) 0.5)))))))", n, x, x, x).unwrap(),
                            _ => {
                                writeln!(s, "(assert (= n{} (uf_{} {})))", n, op.name(), x).unwrap();
                                match op {
                                    U::Sin | U::Cos | U::Tanh => writeln!(s, "(assert (and (<= n{} 1.0) (>= n{} (- 1.0))))", n, n).unwrap(),
                                    U::Exp | U::Exp2 | U::Cosh => writeln!(s, "(assert (> n{} 0.0))", n).unwrap(),
                                    U::Ln | U::Log2 | U::Log10 => writeln!(
                                        s,
                                        "(assert (=> (> {} 0.0) (and (= (< n{} 0.0) (< {} 1.0)) (= (= n{} 0.0) (= {} 1.0)))))",
                                        x, n, x, n, x
                                    )
                                    .unwrap(),
                                    U::Cbrt => writeln!(s, "(assert (= (* n{} n{} n{}) {}))", n, n, n, x).unwrap(),
                                    _ => {}
                                }
                            }
                        }
                    }
                    Node::Bin(op, a, b) => {
                        let x = self.nref(*a);
                        let y = self.nref(*b);
                        match op {
                            B::Add => writeln!(s, "(assert (= n{} (+ {} {})))", n, x, y).unwrap(),
                            B::Sub => writeln!(s, "(assert (= n{} (- {} {})))", n, x, y).unwrap(),
                            B::Mul => writeln!(s, "(assert (= n{} (* {} {})))", n, x, y).unwrap(),
                            B::Div => {
                                if self.aff(*b).is_const() {
                                    writeln!(s, "(assert (= n{} (/ {} {})))", n, x, y).unwrap()
                                } else {
                                    writeln!(s, "(assert (=> (not (= {} 0.0)) (= (* n{} {}) {})))", y, n, y, x).unwrap()
                                }
                            }
                            B::Min => writeln!(s, "(assert (= n{} (ite (<= {} {}) {} {})))", n, x, y, x, y).unwrap(),
                            B::Max => writeln!(s, "(assert (= n{} (ite (>= {} {}) {} {})))", n, x, y, x, y).unwrap(),
                            B::Copysign => writeln!(s, "(assert (= n{} (ite (>= {} 0.0) (ite (>= {} 0.0) {} (- {})) (ite (>= {} 0.0) (- {}) {}))))", n, y, x, x, x, x, x, x).unwrap(),
                            B::Powf => {
                                writeln!(s, "(assert (= n{} (uf_powf {} {})))", n, x, y).unwrap();
                                writeln!(s, "(assert (=> (> {} 0.0) (> n{} 0.0)))", x, n).unwrap();
                            }
                            B::Atan2 => writeln!(s, "(assert (= n{} (uf_atan2 {} {})))", n, x, y).unwrap(),
                            B::Rem => writeln!(s, "(assert (= n{} (uf_frem {} {})))", n, x, y).unwrap(),
                            B::Hypot => unreachable!(),
                        }
                    }
                    Node::Powi(a, k) => {
                        let x = self.nref(*a);
                        let mut t = String::from("(*");
                        for _ in 0..*k {
                            t.push(' ');
                            t.push_str(&x);
                        }
                        t.push(')');
                        writeln!(s, "(assert (= n{} {}))", n, t).unwrap();
                    }
                    Node::Root(a, k) => {
                        let x = self.nref(*a);
                        let mut t = String::from("(*");
                        for _ in 0..*k {
                            write!(t, " n{}", n).unwrap();
                        }
                        t.push(')');
                        writeln!(s, "(assert (=> (>= {} 0.0) (and (>= n{} 0.0) (= {} {}))))", x, n, t, x).unwrap();
                    }
                    Node::Ite(c, a, b) => {
                        writeln!(s, "(assert (= n{} (ite {} {} {})))", n, self.cond_str(*c), self.nref(*a), self.nref(*b)).unwrap();
                    }
                    _ => {}
                }
            } else {
                let a = self.aff(n);
                if a.terms.len() > 2 {
                    // only for purely linear queries: the extra slack variables hurt nlsat more than long numerals do
                    match if self.nonlinear { None } else { self.shortened(&a) } {
                        Some((short, err)) => {
                            // sound relaxation: exact form = shortened form + r, |r| <= err (long numerals stall the solvers)
                            writeln!(s, "(declare-const r{} Real)", n).unwrap();
                            writeln!(s, "(assert (and (<= (- {}) r{}) (<= r{} {})))", err.smt(), n, n, err.smt()).unwrap();
                            let body = aff_str(&short);
                            writeln!(s, "(define-fun e{} () Real (+ {} r{}))", n, body, n).unwrap();
                        }
                        None => writeln!(s, "(define-fun e{} () Real {})", n, aff_str(&a)).unwrap(),
                    }
                }
            }
        }
        s
    }
}

// ---------------------------------------------------------------------
// solver processes

#[derive(Clone, Copy, PartialEq, Eq, Debug)]
pub enum SolverKind {
    Z3,
    Z3New,
    Cvc5,
}

impl SolverKind {
    pub fn name(self) -> &'static str {
        match self {
            SolverKind::Z3 => "z3-4.8.12",
            SolverKind::Z3New => "z3-5.1.0",
            SolverKind::Cvc5 => "cvc5-1.0",
        }
    }
}

pub struct Solver {
    pub kind: SolverKind,
    child: Option<Child>,
    stdin: Option<ChildStdin>,
    rx: Option<Receiver<String>>,
    pub spawns: u64,
    pub queries: u64,
    pub seconds: f64,
    pub timeouts: u64,
    pub errors: u64,
    pub last_error: String,
}

impl Solver {
    pub fn new(kind: SolverKind) -> Self {
        Solver {
            kind,
            child: None,
            stdin: None,
            rx: None,
            spawns: 0,
            queries: 0,
            seconds: 0.0,
            timeouts: 0,
            errors: 0,
            last_error: String::new(),
        }
    }

    fn spawn(&mut self) {
        let mut cmd = match self.kind {
            SolverKind::Z3 => {
                let mut c = Command::new("/usr/bin/z3");
                c.arg("-in");
                c
            }
            SolverKind::Z3New => {
                let mut c = Command::new("z3-new");
                c.arg("-in");
                c
            }
            SolverKind::Cvc5 => {
                let mut c = Command::new("cvc5");
                c.args(["--lang", "smt2", "--incremental", "--produce-models", "--nl-cov"]);
                c
            }
        };
        let mut child = cmd
            .stdin(Stdio::piped())
            .stdout(Stdio::piped())
            .stderr(Stdio::null())
            .spawn()
            .expect("cannot start SMT solver");
        let stdin = child.stdin.take().unwrap();
        let stdout = child.stdout.take().unwrap();
        let (tx, rx) = channel();
        std::thread::spawn(move || {
            let r = BufReader::new(stdout);
            for line in r.lines() {
                match line {
                    Ok(l) => {
                        if tx.send(l).is_err() {
                            break;
                        }
                    }
                    Err(_) => break,
                }
            }
        });
        self.child = Some(child);
        self.stdin = Some(stdin);
        self.rx = Some(rx);
        self.spawns += 1;
    }

    pub fn kill(&mut self) {
        if let Some(mut c) = self.child.take() {
            let _ = c.kill();
            let _ = c.wait();
        }
        self.stdin = None;
        self.rx = None;
    }

    /// Run one self-contained query.  `body` = declarations and assertions.
    /// If `want_model` names variables, their values are returned on `sat`.
    pub fn check(
        &mut self,
        body: &str,
        nonlinear: bool,
        timeout_s: f64,
        want_model: &[String],
    ) -> (Verdict, HashMap<String, f64>) {
        let t0 = Instant::now();
        self.queries += 1;
        if self.child.is_none() {
            self.spawn();
        }
        let mut text = String::with_capacity(body.len() + 256);
        match self.kind {
            SolverKind::Z3 | SolverKind::Z3New => {
                text.push_str("(reset)\n(set-option :pp.decimal true)\n(set-option :pp.decimal_precision 25)\n");
                writeln!(text, "(set-option :timeout {})", (timeout_s * 1000.0) as u64).unwrap();
            }
            SolverKind::Cvc5 => {
                text.push_str("(reset)\n(set-option :produce-models true)\n(set-logic ALL)\n");
                writeln!(text, "(set-option :tlimit-per {})", (timeout_s * 1000.0) as u64).unwrap();
            }
        }
        text.push_str(body);
        let _ = nonlinear;
        text.push_str("(check-sat)\n(echo \"@@cs\")\n");
        let mut verdict = Verdict::Unknown;
        let mut model = HashMap::new();
        let hard = Duration::from_secs_f64(timeout_s * 1.5 + 2.0);
        let ok = self.send(&text);
        if !ok {
            self.kill();
            self.errors += 1;
            self.seconds += t0.elapsed().as_secs_f64();
            return (Verdict::Unknown, model);
        }
        let mut had_error = false;
        match self.read_until("@@cs", hard) {
            Some(lines) => {
                for l in &lines {
                    let t = l.trim();
                    if t.starts_with("(error") {
                        had_error = true;
                        self.last_error = t.to_string();
                        if std::env::var("SYMX_TRACE").is_ok() {
                            eprintln!("[solver error] {}\n{}", t, body);
                        }
                    } else if t == "sat" {
                        verdict = Verdict::Sat;
                    } else if t == "unsat" {
                        verdict = Verdict::Unsat;
                    } else if t == "unknown" || t == "timeout" {
                        verdict = Verdict::Unknown;
                    }
                }
            }
            None => {
                self.timeouts += 1;
                self.kill();
                self.seconds += t0.elapsed().as_secs_f64();
                return (Verdict::Unknown, model);
            }
        }
        if had_error {
            self.errors += 1;
            verdict = Verdict::Unknown;
        }
        if verdict == Verdict::Sat && !want_model.is_empty() {
            let mut q = String::from("(get-value (");
            for v in want_model {
                q.push_str(v);
                q.push(' ');
            }
            q.push_str("))\n(echo \"@@gv\")\n");
            if self.send(&q) {
                if let Some(lines) = self.read_until("@@gv", Duration::from_secs(20)) {
                    let joined = lines.join(" ");
                    model = parse_get_value(&joined);
                } else {
                    self.kill();
                }
            }
        }
        self.seconds += t0.elapsed().as_secs_f64();
        if let Ok(dir) = std::env::var("SYMX_TRACE") {
            let dt = t0.elapsed().as_secs_f64();
            eprintln!("[q] {:?} {:.3}s {}B nl={}", verdict, dt, body.len(), nonlinear);
            if dt > 2.0 {
                static N: std::sync::atomic::AtomicUsize = std::sync::atomic::AtomicUsize::new(0);
                let k = N.fetch_add(1, std::sync::atomic::Ordering::SeqCst);
                let _ = std::fs::create_dir_all(&dir);
                let _ = std::fs::write(format!("{}/slow{}_{:?}_{:.1}s.smt2", dir, k, verdict, dt), format!("{}(check-sat)\n", body));
            }
        }
        (verdict, model)
    }

    fn send(&mut self, text: &str) -> bool {
        if let Some(si) = self.stdin.as_mut() {
            si.write_all(text.as_bytes()).is_ok() && si.flush().is_ok()
        } else {
            false
        }
    }

    fn read_until(&mut self, marker: &str, hard: Duration) -> Option<Vec<String>> {
        let deadline = Instant::now() + hard;
        let mut lines = vec![];
        let rx = self.rx.as_ref()?;
        loop {
            let now = Instant::now();
            if now >= deadline {
                return None;
            }
            match rx.recv_timeout(deadline - now) {
                Ok(l) => {
                    if l.trim().trim_matches('"') == marker {
                        return Some(lines);
                    }
                    lines.push(l);
                }
                Err(RecvTimeoutError::Timeout) => return None,
                Err(RecvTimeoutError::Disconnected) => return None,
            }
        }
    }
}

impl Drop for Solver {
    fn drop(&mut self) {
        self.kill();
    }
}

// ---------------------------------------------------------------------
// model parsing: "((v0 1.5) (v1 (- 0.25)) (v2 (/ 1.0 3.0)) (v3 0.333?))"

#[derive(Debug)]
enum Sx {
    Atom(String),
    List(Vec<Sx>),
}

fn parse_sx(tokens: &[String], pos: &mut usize) -> Option<Sx> {
    if *pos >= tokens.len() {
        return None;
    }
    let t = &tokens[*pos];
    *pos += 1;
    if t == "(" {
        let mut v = vec![];
        while *pos < tokens.len() && tokens[*pos] != ")" {
            v.push(parse_sx(tokens, pos)?);
        }
        *pos += 1;
        Some(Sx::List(v))
    } else if t == ")" {
        None
    } else {
        Some(Sx::Atom(t.clone()))
    }
}

fn tokenize(s: &str) -> Vec<String> {
    let mut out = vec![];
    let mut cur = String::new();
    for ch in s.chars() {
        match ch {
            '(' | ')' => {
                if !cur.is_empty() {
                    out.push(std::mem::take(&mut cur));
                }
                out.push(ch.to_string());
            }
            c if c.is_whitespace() => {
                if !cur.is_empty() {
                    out.push(std::mem::take(&mut cur));
                }
            }
            c => cur.push(c),
        }
    }
    if !cur.is_empty() {
        out.push(cur);
    }
    out
}

fn sx_value(s: &Sx) -> Option<f64> {
    match s {
        Sx::Atom(a) => {
            let t = a.trim_end_matches('?');
            t.parse::<f64>().ok()
        }
        Sx::List(v) => {
            if v.is_empty() {
                return None;
            }
            let head = match &v[0] {
                Sx::Atom(a) => a.as_str(),
                _ => return None,
            };
            match head {
                "-" => {
                    if v.len() == 2 {
                        Some(-sx_value(&v[1])?)
                    } else {
                        let mut r = sx_value(&v[1])?;
                        for x in &v[2..] {
                            r -= sx_value(x)?;
                        }
                        Some(r)
                    }
                }
                "+" => {
                    let mut r = 0.0;
                    for x in &v[1..] {
                        r += sx_value(x)?;
                    }
                    Some(r)
                }
                "*" => {
                    let mut r = 1.0;
                    for x in &v[1..] {
                        r *= sx_value(x)?;
                    }
                    Some(r)
                }
                "/" => Some(sx_value(&v[1])? / sx_value(&v[2])?),
                "to_real" => sx_value(&v[1]),
                _ => None,
            }
        }
    }
}

pub fn parse_get_value(s: &str) -> HashMap<String, f64> {
    let toks = tokenize(s);
    let mut pos = 0;
    let mut out = HashMap::new();
    if let Some(Sx::List(items)) = parse_sx(&toks, &mut pos) {
        for it in items {
            if let Sx::List(pair) = it {
                if pair.len() == 2 {
                    if let Sx::Atom(name) = &pair[0] {
                        if let Some(v) = sx_value(&pair[1]) {
                            out.insert(name.clone(), v);
                        } else if let Sx::Atom(b) = &pair[1] {
                            if b == "true" {
                                out.insert(name.clone(), 1.0);
                            } else if b == "false" {
                                out.insert(name.clone(), 0.0);
                            }
                        }
                    }
                }
            }
        }
    }
    out
}

#[cfg(test)]
mod t {
    use super::*;
    #[test]
    fn lits() {
        assert_eq!(real_lit(0.5), "(/ 1.0 2.0)");
        assert_eq!(real_lit(-3.0), "(- 3.0)");
        assert_eq!(real_lit(1e300).len() > 290, true);
        let m = parse_get_value("((v0 1.5) (v1 (- 0.25)) (v2 (/ 1.0 4.0)) (v3 0.333?))");
        assert_eq!(m["v0"], 1.5);
        assert_eq!(m["v1"], -0.25);
        assert_eq!(m["v2"], 0.25);
        assert!((m["v3"] - 0.333).abs() < 1e-12);
    }
}
