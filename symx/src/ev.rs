//! Evidence, known-findings and replay files (hand-rolled JSON: no serde offline dependency needed).

use crate::eng::{Candidate, Report, TapeSample};
use std::collections::{BTreeMap, HashMap};
use std::fmt::Write as _;

#[derive(Clone, Debug, PartialEq)]
pub enum J {
    Null,
    Bool(bool),
    Int(i64),
    Num(f64),
    Str(String),
    Arr(Vec<J>),
    Obj(Vec<(String, J)>),
}

pub fn jstr(s: &str) -> J {
    J::Str(s.to_string())
}
pub fn jobj(v: Vec<(&str, J)>) -> J {
    J::Obj(v.into_iter().map(|(k, v)| (k.to_string(), v)).collect())
}
pub fn jarr_str(v: &[String]) -> J {
    J::Arr(v.iter().map(|s| J::Str(s.clone())).collect())
}

impl J {
    pub fn get(&self, k: &str) -> Option<&J> {
        if let J::Obj(v) = self {
            v.iter().find(|(kk, _)| kk == k).map(|(_, v)| v)
        } else {
            None
        }
    }
    pub fn as_str(&self) -> Option<&str> {
        if let J::Str(s) = self {
            Some(s)
        } else {
            None
        }
    }
    pub fn as_f64(&self) -> Option<f64> {
        match self {
            J::Num(x) => Some(*x),
            J::Int(i) => Some(*i as f64),
            J::Str(s) => s.parse().ok(),
            _ => None,
        }
    }
    pub fn write(&self, out: &mut String, ind: usize) {
        match self {
            J::Null => out.push_str("null"),
            J::Bool(b) => out.push_str(if *b { "true" } else { "false" }),
            J::Int(i) => write!(out, "{}", i).unwrap(),
            J::Num(x) => {
                if x.is_finite() {
                    write!(out, "{:?}", x).unwrap()
                } else {
                    write!(out, "\"{}\"", x).unwrap()
                }
            }
            J::Str(s) => {
                out.push('"');
                for ch in s.chars() {
                    match ch {
                        '"' => out.push_str("\\\""),
                        '\\' => out.push_str("\\\\"),
                        '\n' => out.push_str("\\n"),
                        '\t' => out.push_str("\\t"),
                        '\r' => out.push_str("\\r"),
                        c if (c as u32) < 0x20 => write!(out, "\\u{:04x}", c as u32).unwrap(),
                        c => out.push(c),
                    }
                }
                out.push('"');
            }
            J::Arr(v) => {
                if v.is_empty() {
                    out.push_str("[]");
                    return;
                }
                out.push_str("[\n");
                for (i, x) in v.iter().enumerate() {
                    out.push_str(&" ".repeat(ind + 1));
                    x.write(out, ind + 1);
                    if i + 1 < v.len() {
                        out.push(',');
                    }
                    out.push('\n');
                }
                out.push_str(&" ".repeat(ind));
                out.push(']');
            }
            J::Obj(v) => {
                if v.is_empty() {
                    out.push_str("{}");
                    return;
                }
                out.push_str("{\n");
                for (i, (k, x)) in v.iter().enumerate() {
                    out.push_str(&" ".repeat(ind + 1));
                    J::Str(k.clone()).write(out, 0);
                    out.push_str(": ");
                    x.write(out, ind + 1);
                    if i + 1 < v.len() {
                        out.push(',');
                    }
                    out.push('\n');
                }
                out.push_str(&" ".repeat(ind));
                out.push('}');
            }
        }
    }
    pub fn to_string(&self) -> String {
        let mut s = String::new();
        self.write(&mut s, 0);
        s.push('\n');
        s
    }
}

// minimal JSON parser ---------------------------------------------------
struct P<'a> {
    b: &'a [u8],
    i: usize,
}
impl<'a> P<'a> {
    fn ws(&mut self) {
        while self.i < self.b.len() && (self.b[self.i] as char).is_whitespace() {
            self.i += 1;
        }
    }
    fn val(&mut self) -> Option<J> {
        self.ws();
        if self.i >= self.b.len() {
            return None;
        }
        match self.b[self.i] {
            b'{' => {
                self.i += 1;
                let mut v = vec![];
                loop {
                    self.ws();
                    if self.b.get(self.i) == Some(&b'}') {
                        self.i += 1;
                        break;
                    }
                    let k = match self.val()? {
                        J::Str(s) => s,
                        _ => return None,
                    };
                    self.ws();
                    if self.b.get(self.i) != Some(&b':') {
                        return None;
                    }
                    self.i += 1;
                    let x = self.val()?;
                    v.push((k, x));
                    self.ws();
                    if self.b.get(self.i) == Some(&b',') {
                        self.i += 1;
                    }
                }
                Some(J::Obj(v))
            }
            b'[' => {
                self.i += 1;
                let mut v = vec![];
                loop {
                    self.ws();
                    if self.b.get(self.i) == Some(&b']') {
                        self.i += 1;
                        break;
                    }
                    v.push(self.val()?);
                    self.ws();
                    if self.b.get(self.i) == Some(&b',') {
                        self.i += 1;
                    }
                }
                Some(J::Arr(v))
            }
            b'"' => {
                self.i += 1;
                let mut s = String::new();
                while self.i < self.b.len() && self.b[self.i] != b'"' {
                    if self.b[self.i] == b'\\' {
                        self.i += 1;
                        match self.b.get(self.i)? {
                            b'n' => s.push('\n'),
                            b't' => s.push('\t'),
                            b'r' => s.push('\r'),
                            b'u' => {
                                let h = std::str::from_utf8(&self.b[self.i + 1..self.i + 5]).ok()?;
                                s.push(char::from_u32(u32::from_str_radix(h, 16).ok()?)?);
                                self.i += 4;
                            }
                            c => s.push(*c as char),
                        }
                        self.i += 1;
                    } else {
                        // utf-8 passthrough
                        let start = self.i;
                        self.i += 1;
                        while self.i < self.b.len() && (self.b[self.i] & 0xC0) == 0x80 {
                            self.i += 1;
                        }
                        s.push_str(std::str::from_utf8(&self.b[start..self.i]).ok()?);
                    }
                }
                self.i += 1;
                Some(J::Str(s))
            }
            b't' => {
                self.i += 4;
                Some(J::Bool(true))
            }
            b'f' => {
                self.i += 5;
                Some(J::Bool(false))
            }
            b'n' => {
                self.i += 4;
                Some(J::Null)
            }
            _ => {
                let start = self.i;
                while self.i < self.b.len() && matches!(self.b[self.i], b'-' | b'+' | b'.' | b'e' | b'E' | b'0'..=b'9') {
                    self.i += 1;
                }
                let t = std::str::from_utf8(&self.b[start..self.i]).ok()?;
                if let Ok(i) = t.parse::<i64>() {
                    Some(J::Int(i))
                } else {
                    t.parse::<f64>().ok().map(J::Num)
                }
            }
        }
    }
}
pub fn parse_json(s: &str) -> Option<J> {
    let mut p = P { b: s.as_bytes(), i: 0 };
    p.val()
}

// known findings -------------------------------------------------------

#[derive(Clone, Debug)]
pub struct Finding {
    pub kind: String, // "finding" | "fixed"
    pub property: String,
    pub key: String,
    pub what: String,
}

pub fn load_findings(path: &str) -> Vec<Finding> {
    // line format (committed file, never written at run time):
    //   finding: property=<id> key=<harness/obligation or prefix*> :: <what fails>
    //   fixed: property=<id> <commit> <what failed>
    let mut out = vec![];
    if let Ok(txt) = std::fs::read_to_string(path) {
        for line in txt.lines() {
            let line = line.trim();
            if line.is_empty() || line.starts_with('#') {
                continue;
            }
            let (kind, rest) = match line.split_once(':') {
                Some((k, r)) => (k.trim().to_string(), r.trim().to_string()),
                None => continue,
            };
            let mut property = String::new();
            let mut key = String::new();
            let mut what = rest.clone();
            if let Some(r) = rest.strip_prefix("property=") {
                let mut it = r.splitn(2, ' ');
                property = it.next().unwrap_or("").to_string();
                what = it.next().unwrap_or("").to_string();
            }
            if kind == "finding" {
                if let Some(r) = what.strip_prefix("key=") {
                    if let Some((k, w)) = r.split_once(" :: ") {
                        key = k.trim().to_string();
                        what = w.trim().to_string();
                    }
                }
            }
            out.push(Finding { kind, property, key, what });
        }
    }
    out
}

// property run aggregation -----------------------------------------------

pub struct PropRun {
    pub id: String,
    pub tier: String,
    pub seed: i64,
    pub reports: Vec<Report>,
    pub functions: Vec<String>,
    pub bounds: Vec<String>,
    pub outside: Vec<String>,
    pub assumptions: Vec<String>,
    pub t0: std::time::Instant,
    pub extra: Vec<(String, J)>,
    /// replay mode: (harness name, inputs, tapes); harnesses with another name are skipped
    pub replay: Option<(String, HashMap<String, f64>, Vec<TapeSample>)>,
    pub replay_out: Option<crate::eng::ReplayOutcome>,
    /// optional harness-name filter (substring) for development
    pub only: Option<String>,
    /// property-level wall budget: harnesses that would start after it are skipped and reported (never a pass)
    pub budget_s: f64,
    pub skipped: Vec<String>,
}

fn fnv(s: &str) -> u64 {
    let mut h: u64 = 0xcbf29ce484222325;
    for b in s.bytes() {
        h ^= b as u64;
        h = h.wrapping_mul(0x100000001b3);
    }
    h
}

pub fn candidate_json(c: &Candidate) -> J {
    let inputs: BTreeMap<_, _> = c.inputs.iter().collect();
    jobj(vec![
        ("harness", jstr(&c.harness)),
        ("obligation", jstr(&c.obligation)),
        ("inputs", J::Obj(inputs.iter().map(|(k, v)| ((*k).clone(), J::Str(format!("{:e}", v)))).collect())),
        (
            "tapes",
            J::Arr(
                c.tapes
                    .iter()
                    .map(|t| {
                        jobj(vec![
                            ("f", jstr(&t.fname)),
                            ("args", J::Arr(t.args.iter().map(|a| J::Str(format!("{:e}", a))).collect())),
                            ("value", J::Str(format!("{:e}", t.value))),
                        ])
                    })
                    .collect(),
            ),
        ),
        ("path", jstr(&crate::eng::short_tape(&c.decisions))),
        ("native_failures", jarr_str(&c.native_failures)),
        ("native_panic", c.native_panic.as_ref().map(|s| jstr(s)).unwrap_or(J::Null)),
        ("confirmed_on_native_f64", J::Bool(c.confirmed)),
    ])
}

pub fn candidate_from_json(j: &J) -> Option<(String, HashMap<String, f64>, Vec<TapeSample>)> {
    let h = j.get("harness")?.as_str()?.to_string();
    let mut inputs = HashMap::new();
    if let Some(J::Obj(v)) = j.get("inputs") {
        for (k, x) in v {
            inputs.insert(k.clone(), x.as_f64()?);
        }
    }
    let mut tapes = vec![];
    if let Some(J::Arr(v)) = j.get("tapes") {
        for t in v {
            let f = t.get("f")?.as_str()?.to_string();
            let mut args = vec![];
            if let Some(J::Arr(a)) = t.get("args") {
                for x in a {
                    args.push(x.as_f64()?);
                }
            }
            tapes.push(TapeSample { fname: f, args, value: t.get("value")?.as_f64()? });
        }
    }
    Some((h, inputs, tapes))
}

impl PropRun {
    pub fn over_budget(&self) -> bool {
        self.t0.elapsed().as_secs_f64() > self.budget_s
    }
    pub fn new(id: &str, tier: &str, seed: i64) -> Self {
        PropRun {
            id: id.to_string(),
            tier: tier.to_string(),
            seed,
            reports: vec![],
            functions: vec![],
            bounds: vec![],
            outside: vec![],
            assumptions: vec![],
            t0: std::time::Instant::now(),
            extra: vec![],
            replay: None,
            replay_out: None,
            only: None,
            budget_s: if tier == "thorough" { 2700.0 } else { 1500.0 },
            skipped: vec![],
        }
    }
    pub fn funcs(&mut self, v: &[&str]) {
        for s in v {
            if !self.functions.iter().any(|x| x == s) {
                self.functions.push(s.to_string());
            }
        }
    }
    pub fn bound(&mut self, s: &str) {
        self.bounds.push(s.to_string());
    }
    pub fn outside(&mut self, s: &str) {
        self.outside.push(s.to_string());
    }
    pub fn assume(&mut self, s: &str) {
        self.assumptions.push(s.to_string());
    }
    pub fn add(&mut self, r: Report) {
        self.add_q(r, false)
    }
    /// `quiet`: print the per-harness line only when something needs attention
    pub fn add_q(&mut self, r: Report, quiet: bool) {
        let confirmed = r.candidates.iter().filter(|c| c.confirmed).count();
        let notable = !r.candidates.is_empty() || !r.undecided.is_empty() || r.paths_cut > 0 || r.paths_unexplored > 0 || !r.native_mismatch.is_empty();
        if quiet && !notable {
            self.reports.push(r);
            return;
        }
        println!(
            "  [{}] paths={} (cut {}, infeasible {}, unexplored {}) decisions={} obligations={} discharged={} candidates={} confirmed={} undecided={} queries={} solver={:.1}s wall={:.1}s",
            r.harness,
            r.paths,
            r.paths_cut,
            r.paths_infeasible,
            r.paths_unexplored,
            r.decisions,
            r.obligations,
            r.discharged,
            r.candidates.len(),
            confirmed,
            r.undecided.len(),
            r.queries,
            r.solver_s,
            r.wall_s
        );
        self.reports.push(r);
    }

    /// Write evidence, print KNOWN-FINDING / VIOLATION / UNDECIDED lines, return the exit code.
    pub fn finish(&mut self, verif_dir: &str) -> i32 {
        let findings = load_findings(&format!("{}/known_findings.txt", verif_dir));
        let mut violations: Vec<(String, &Candidate)> = vec![];
        let mut known: BTreeMap<String, (String, usize)> = BTreeMap::new();
        let mut unconfirmed = 0usize;
        let mut undecided = 0usize;
        let mut vacuity_bad: Vec<String> = vec![];
        let mut native_mismatch: Vec<String> = vec![];
        let mut solver_errors = 0u64;
        for r in &self.reports {
            undecided += r.undecided.len();
            solver_errors += r.solver_errors;
            vacuity_bad.extend(r.controls_bad.iter().map(|s| format!("{}:{}", r.harness, s)));
            native_mismatch.extend(r.native_mismatch.iter().map(|s| format!("{}: {}", r.harness, s)));
            for c in &r.candidates {
                if !c.confirmed {
                    unconfirmed += 1;
                    continue;
                }
                let key = format!("{}/{}", c.harness, c.obligation);
                let f = findings.iter().find(|f| f.kind == "finding" && f.property == self.id && key_matches(&f.key, &key));
                match f {
                    Some(f) => {
                        let e = known.entry(f.key.clone()).or_insert((f.what.clone(), 0));
                        e.1 += 1;
                    }
                    None => violations.push((key, c)),
                }
            }
        }
        for (k, (what, n)) in &known {
            println!("KNOWN-FINDING: property={} {} [{}; {} confirmed counterexample(s) this run]", self.id, what, k, n);
        }
        let mut exit = 0;
        let mut seen_keys: Vec<String> = vec![];
        let mut viol_json = vec![];
        for (key, c) in &violations {
            let dir = format!("{}/replays/{}", verif_dir, self.id);
            let _ = std::fs::create_dir_all(&dir);
            let cj = candidate_json(c);
            let h = fnv(&format!("{}{}", key, cj.to_string()));
            let path = format!("{}/{:016x}.json", dir, h);
            let mut full = vec![("property".to_string(), jstr(&self.id)), ("key".to_string(), jstr(key))];
            if let J::Obj(v) = cj.clone() {
                full.extend(v);
            }
            let _ = std::fs::write(&path, J::Obj(full).to_string());
            if !seen_keys.contains(key) {
                println!("VIOLATION property={} replay={}", self.id, path);
                println!("  obligation: {}  native failures: {:?} panic: {:?}", key, c.native_failures, c.native_panic);
                seen_keys.push(key.clone());
            }
            if viol_json.len() < 10 {
                viol_json.push(cj);
            }
            exit = 1;
        }
        if undecided > 0 {
            let mut names: BTreeMap<String, usize> = BTreeMap::new();
            for r in &self.reports {
                for u in &r.undecided {
                    *names.entry(format!("{}/{}", r.harness, u)).or_insert(0) += 1;
                }
            }
            println!("UNDECIDED property={} n={} {:?}", self.id, undecided, names);
        }
        if unconfirmed > 0 {
            let mut names: BTreeMap<String, usize> = BTreeMap::new();
            for r in &self.reports {
                for c in &r.candidates {
                    if !c.confirmed {
                        *names.entry(format!("{}/{}", c.harness, c.obligation)).or_insert(0) += 1;
                        if std::env::var("SYMX_SHOW_UNCONFIRMED").is_ok() {
                            let mut kv: Vec<_> = c.inputs.iter().collect();
                            kv.sort_by(|a, b| a.0.cmp(b.0));
                            println!("    unconfirmed candidate {}/{} inputs {:?} native_failures {:?}", c.harness, c.obligation, kv, c.native_failures);
                        }
                    }
                }
            }
            println!("  unconfirmed: {:?}", names);
            println!("UNCONFIRMED property={} n={} (solver candidates that did not reproduce on the native f64 build; not reported as violations)", self.id, unconfirmed);
        }
        for v in &vacuity_bad {
            println!("VACUITY-WARNING property={} control {}", self.id, v);
        }
        for m in native_mismatch.iter().take(5) {
            println!("NATIVE-MISMATCH property={} {}", self.id, m);
        }
        // ---- evidence
        let paths: usize = self.reports.iter().map(|r| r.paths).sum();
        let decisions: usize = self.reports.iter().map(|r| r.decisions).sum();
        let obligations: usize = self.reports.iter().map(|r| r.obligations).sum();
        let discharged: usize = self.reports.iter().map(|r| r.discharged).sum();
        let trivial: usize = self.reports.iter().map(|r| r.trivial).sum();
        let queries: u64 = self.reports.iter().map(|r| r.queries).sum();
        let solver_s: f64 = self.reports.iter().map(|r| r.solver_s).sum();
        let validated: usize = self.reports.iter().map(|r| r.native_validated + r.candidates.len()).sum();
        let cut: usize = self.reports.iter().map(|r| r.paths_cut + r.paths_unexplored).sum();
        let mut distinct: std::collections::BTreeSet<String> = Default::default();
        for r in &self.reports {
            for (n, (_c, _d, nt)) in &r.ob_names {
                if *nt > 0 {
                    distinct.insert(format!("{}/{}", r.harness, n));
                }
            }
        }
        let mut samples: Vec<J> = vec![];
        for r in &self.reports {
            for s in r.samples.iter().take(2) {
                if samples.len() < 12 {
                    samples.push(jstr(&format!("{}: {}", r.harness, s)));
                }
            }
        }
        for r in &self.reports {
            for c in r.candidates.iter().take(2) {
                if samples.len() < 18 {
                    samples.push(candidate_json(c));
                }
            }
        }
        if samples.is_empty() {
            samples.push(jstr("no non-trivial obligation was generated"));
        }
        let n_reports = self.reports.len();
        let harnesses: Vec<J> = self
            .reports
            .iter()
            .enumerate()
            .filter(|(i, r)| n_reports <= 60 || *i < 40 || !r.candidates.is_empty() || !r.undecided.is_empty())
            .map(|(_, r)| {
                let mut reached: Vec<_> = r.reached.iter().collect();
                reached.sort();
                jobj(vec![
                    ("harness", jstr(&r.harness)),
                    ("feasible_paths", J::Int(r.paths as i64)),
                    ("paths_cut_by_bound", J::Int(r.paths_cut as i64)),
                    ("paths_unexplored", J::Int(r.paths_unexplored as i64)),
                    ("paths_infeasible_by_assumption", J::Int(r.paths_infeasible as i64)),
                    ("paths_panicked", J::Int(r.paths_panicked as i64)),
                    ("decisions", J::Int(r.decisions as i64)),
                    ("forced_decisions", J::Int(r.forced as i64)),
                    ("feasibility_unknown", J::Int(r.unknown_feasibility as i64)),
                    ("obligations", J::Int(r.obligations as i64)),
                    ("discharged_unsat", J::Int(r.discharged as i64)),
                    ("syntactically_trivial", J::Int(r.trivial as i64)),
                    ("nonlinear_obligations", J::Int(r.nonlinear_obligations as i64)),
                    ("undecided", J::Int(r.undecided.len() as i64)),
                    ("sat_candidates", J::Int(r.candidates.len() as i64)),
                    ("confirmed_on_native_f64", J::Int(r.candidates.iter().filter(|c| c.confirmed).count() as i64)),
                    ("reachability_witnesses", J::Obj(reached.iter().map(|(k, v)| ((*k).clone(), J::Int(**v as i64))).collect())),
                    ("negative_controls_sat", J::Int(r.controls_ok as i64)),
                    ("solver_queries", J::Int(r.queries as i64)),
                    ("solver_seconds", J::Num((r.solver_s * 1000.0).round() / 1000.0)),
                    ("solver_errors", J::Int(r.solver_errors as i64)),
                    ("solver_timeouts", J::Int(r.solver_timeouts as i64)),
                    ("decided_by_second_solver", J::Int(r.fallback_used as i64)),
                    ("max_term_dag_nodes", J::Int(r.max_nodes as i64)),
                    ("max_query_bytes", J::Int(r.max_smt_bytes as i64)),
                    ("native_path_models_replayed", J::Int(r.native_validated as i64)),
                    ("wall_s", J::Num((r.wall_s * 100.0).round() / 100.0)),
                    ("notes", jarr_str(&r.notes)),
                ])
            })
            .collect();
        let mut cov = vec![
            ("states".to_string(), J::Int(paths.max(1) as i64)),
            ("transitions".to_string(), J::Int((decisions + obligations - trivial).max(1) as i64)),
            ("traces_validated_against_impl".to_string(), J::Int(validated as i64)),
            ("samples".to_string(), J::Arr(samples)),
            ("evaluations".to_string(), J::Int(queries.max(1) as i64)),
            ("distinct_nontrivial".to_string(), J::Int(distinct.len().max(0) as i64)),
            (
                "rule".to_string(),
                jstr("states = feasible symbolic paths of the real library code executed at the Sym scalar; transitions = solver-decided steps (branch decisions + non-trivial obligations); evaluations = SMT queries; distinct_nontrivial = distinct (harness, obligation role) pairs whose formula was not syntactically true"),
            ),
            ("obligations".to_string(), J::Int(obligations as i64)),
            ("discharged".to_string(), J::Int(discharged as i64)),
            ("syntactically_trivial".to_string(), J::Int(trivial as i64)),
            ("undecided".to_string(), J::Int(undecided as i64)),
            ("unconfirmed_candidates".to_string(), J::Int(unconfirmed as i64)),
            ("paths_cut_or_unexplored".to_string(), J::Int(cut as i64)),
            ("exhaustive".to_string(), J::Bool(cut == 0 && undecided == 0)),
            ("functions_encoded".to_string(), jarr_str(&self.functions)),
            ("bounds".to_string(), jarr_str(&self.bounds)),
            ("outside_the_claim".to_string(), jarr_str(&self.outside)),
            ("solver".to_string(), jstr("z3 4.8.12 (/usr/bin/z3 -in) primary, z3 5.1.0 (z3-new -in) on unknown/timeout; Real arithmetic (nlsat/simplex); counterexamples replayed on the native f64 build")),
            ("solver_queries".to_string(), J::Int(queries as i64)),
            ("solver_seconds".to_string(), J::Num((solver_s * 1000.0).round() / 1000.0)),
            ("solver_errors".to_string(), J::Int(solver_errors as i64)),
            ("harnesses_run".to_string(), J::Int(n_reports as i64)),
            ("harnesses".to_string(), J::Arr(harnesses)),
            ("known_findings_reported".to_string(), J::Arr(known.iter().map(|(k, (w, n))| jobj(vec![("key", jstr(k)), ("what", jstr(w)), ("counterexamples", J::Int(*n as i64))])).collect())),
            ("violations".to_string(), J::Arr(viol_json)),
            ("vacuity_warnings".to_string(), jarr_str(&vacuity_bad)),
            ("native_mismatch".to_string(), jarr_str(&native_mismatch)),
        ];
        cov.extend(self.extra.drain(..));
        let ev = jobj(vec![
            ("property_id", jstr(&self.id)),
            ("tier", jstr(&self.tier)),
            ("seed", J::Int(self.seed)),
            ("level", jstr("model_checking")),
            ("coverage", J::Obj(cov)),
            ("assumptions", jarr_str(&self.assumptions)),
            ("wall_s", J::Num((self.t0.elapsed().as_secs_f64() * 100.0).round() / 100.0)),
            ("violations", J::Int(violations.len() as i64)),
        ]);
        let _ = std::fs::create_dir_all(format!("{}/evidence", verif_dir));
        let _ = std::fs::write(format!("{}/evidence/{}.json", verif_dir, self.id), ev.to_string());
        if !self.skipped.is_empty() {
            println!("SKIPPED property={} n={} harnesses not started within the property's wall budget of {} s: {:?}", self.id, self.skipped.len(), self.budget_s, self.skipped);
        }
        if solver_errors > 0 {
            // an `(error` line makes the query inconclusive (never a pass); a non-zero count means the encoder emitted
            // something a solver rejected and must be looked at
            println!("SOLVER-ERRORS property={} n={} (those queries were treated as undecided)", self.id, solver_errors);
        }
        println!(
            "RESULT property={} tier={} paths={} obligations={} discharged={} violations={} known={} undecided={} wall={:.1}s",
            self.id,
            self.tier,
            paths,
            obligations,
            discharged,
            violations.len(),
            known.len(),
            undecided,
            self.t0.elapsed().as_secs_f64()
        );
        exit
    }
}

/// a finding key matches when it equals the violation key or is a prefix ending at a '/' or '[' boundary
pub fn key_matches(fkey: &str, key: &str) -> bool {
    if fkey == key {
        return true;
    }
    if let Some(p) = fkey.strip_suffix('*') {
        return key.starts_with(p);
    }
    false
}
