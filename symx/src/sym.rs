//! The symbolic scalar: a `Copy` handle into the thread-local term arena that
//! implements every trait bacon's generic code requires of `N`, so that the
//! library's real code can be instantiated at it.

use crate::arena::*;
use crate::eng::{self, with_st};
use approx::{AbsDiffEq, RelativeEq, UlpsEq};
use num_traits::{Bounded, FromPrimitive, Num, One, Signed, Zero};
use simba::scalar::{ComplexField, Field, RealField, SubsetOf};
use simba::simd::SimdValue;
use std::fmt;
use std::ops::*;

#[derive(Clone, Copy)]
pub struct Sym(pub u32);

impl Sym {
    pub fn konst(x: f64) -> Sym {
        with_st(|st| Sym(st.arena.konst(x)))
    }
    pub fn as_const(self) -> Option<f64> {
        with_st(|st| st.arena.as_const(self.0))
    }
    fn un(self, op: U) -> Sym {
        with_st(|st| {
            if op == U::Sqrt && st.abstract_sqrt && st.arena.as_const(self.0).is_none() {
                // norm abstraction: any non-negative value (sound over-approximation for control-only claims)
                let k = st.fresh_counter;
                st.fresh_counter += 1;
                let kn = st.arena.konst(k as f64);
                return Sym(st.arena.tape("sqrt_abs", &[self.0, kn], Some(0.0), None));
            }
            Sym(st.arena.un(op, self.0))
        })
    }
    fn bin(self, op: B, o: Sym) -> Sym {
        let r = with_st(|st| Sym(st.arena.bin(op, self.0, o.0)));
        if matches!(op, B::Add | B::Sub | B::Mul | B::Div) && with_st(|st| st.rounding) {
            return self.rounded(op, o, r);
        }
        r
    }
    /// standard model of floating-point arithmetic: fl(x op y) = (x op y) + e, |e| <= 2^-53 |x op y|, e a function
    /// of the exact result (operations that are exact in binary floating point are left alone)
    fn rounded(self, op: B, o: Sym, r: Sym) -> Sym {
        if r.as_const().is_some() || r.0 == self.0 || r.0 == o.0 {
            return r;
        }
        let pow2 = |s: Sym| s.as_const().map_or(false, |c| c != 0.0 && c.is_finite() && (c.abs().log2().fract() == 0.0));
        match op {
            B::Mul if pow2(self) || pow2(o) => return r,
            B::Div if pow2(o) => return r,
            _ => {}
        }
        let (c, out) = with_st(|st| {
            st.rounded_ops += 1;
            const U0: f64 = 1.1102230246251565e-16;
            // sign of the exact result from a coarse interval enclosure: a definite sign makes the bound two linear
            // inequalities instead of a case split
            let (lo, hi) = st.arena.interval(r.0);
            let m = lo.abs().max(hi.abs());
            let (elo, ehi) = if m.is_finite() { (Some(-m * U0 * 1.0000001), Some(m * U0 * 1.0000001)) } else { (None, None) };
            let e = st.arena.tape("rnd", &[r.0], elo, ehi);
            let u = st.arena.konst(U0);
            let ur = st.arena.bin(B::Mul, u, r.0);
            let c = if lo >= 0.0 || hi <= 0.0 {
                let nur = st.arena.un(U::Neg, ur);
                let (a, b) = if lo >= 0.0 { (nur, ur) } else { (ur, nur) };
                let c1 = st.arena.le(a, e);
                let c2 = st.arena.le(e, b);
                st.arena.and(c1, c2)
            } else {
                let ae = st.arena.un(U::Abs, e);
                let ar = st.arena.un(U::Abs, r.0);
                let bound = st.arena.bin(B::Mul, u, ar);
                st.arena.le(ae, bound)
            };
            (c, Sym(st.arena.bin(B::Add, r.0, e)))
        });
        eng::assume_unchecked(c);
        out
    }
    pub fn c_lt(self, o: Sym) -> u32 {
        with_st(|st| st.arena.lt(self.0, o.0))
    }
    pub fn c_le(self, o: Sym) -> u32 {
        with_st(|st| st.arena.le(self.0, o.0))
    }
    pub fn c_eq(self, o: Sym) -> u32 {
        with_st(|st| st.arena.eq(self.0, o.0))
    }
}

impl fmt::Debug for Sym {
    fn fmt(&self, f: &mut fmt::Formatter<'_>) -> fmt::Result {
        match self.as_const() {
            Some(c) => write!(f, "{:?}", c),
            None => write!(f, "#{}", self.0),
        }
    }
}
impl fmt::Display for Sym {
    fn fmt(&self, f: &mut fmt::Formatter<'_>) -> fmt::Result {
        match self.as_const() {
            Some(c) => write!(f, "{}", c),
            None => write!(f, "#{}", self.0),
        }
    }
}

impl PartialEq for Sym {
    fn eq(&self, o: &Sym) -> bool {
        let c = self.c_eq(*o);
        eng::decide(c)
    }
}

impl PartialOrd for Sym {
    fn partial_cmp(&self, o: &Sym) -> Option<std::cmp::Ordering> {
        use std::cmp::Ordering::*;
        if let (Some(a), Some(b)) = (self.as_const(), o.as_const()) {
            return a.partial_cmp(&b);
        }
        if eng::decide(self.c_lt(*o)) {
            Some(Less)
        } else if eng::decide(self.c_eq(*o)) {
            Some(Equal)
        } else {
            Some(Greater)
        }
    }
    fn lt(&self, o: &Sym) -> bool {
        eng::decide(self.c_lt(*o))
    }
    fn le(&self, o: &Sym) -> bool {
        eng::decide(self.c_le(*o))
    }
    fn gt(&self, o: &Sym) -> bool {
        eng::decide(o.c_lt(*self))
    }
    fn ge(&self, o: &Sym) -> bool {
        eng::decide(o.c_le(*self))
    }
}

macro_rules! binop {
    ($tr:ident, $f:ident, $atr:ident, $af:ident, $op:expr) => {
        impl $tr for Sym {
            type Output = Sym;
            fn $f(self, o: Sym) -> Sym {
                self.bin($op, o)
            }
        }
        impl<'a> $tr<&'a Sym> for Sym {
            type Output = Sym;
            fn $f(self, o: &'a Sym) -> Sym {
                self.bin($op, *o)
            }
        }
        impl $atr for Sym {
            fn $af(&mut self, o: Sym) {
                *self = self.bin($op, o)
            }
        }
        impl<'a> $atr<&'a Sym> for Sym {
            fn $af(&mut self, o: &'a Sym) {
                *self = self.bin($op, *o)
            }
        }
    };
}
binop!(Add, add, AddAssign, add_assign, B::Add);
binop!(Sub, sub, SubAssign, sub_assign, B::Sub);
binop!(Mul, mul, MulAssign, mul_assign, B::Mul);
impl Sym {
    /// IEEE-faithful division: a symbolic denominator that may be zero forks the path; on the
    /// zero branch the quotient is the IEEE value (+-inf / NaN) the native code would compute.
    fn div_ieee(self, o: Sym) -> Sym {
        if o.as_const() == Some(0.0) && self.as_const().is_none() {
            // symbolic numerator over a constant zero: IEEE gives +-inf by the numerator's sign (NaN for 0/0)
            let z = Sym::konst(0.0);
            let neg_zero = o.as_const().map_or(false, |d| d.is_sign_negative());
            if eng::decide(z.c_lt(self)) {
                return Sym::konst(if neg_zero { f64::NEG_INFINITY } else { f64::INFINITY });
            }
            if eng::decide(self.c_lt(z)) {
                return Sym::konst(if neg_zero { f64::INFINITY } else { f64::NEG_INFINITY });
            }
            return Sym::konst(f64::NAN);
        }
        if o.as_const().is_none() && !with_st(|st| st.arena.as_ground(o.0).is_some()) {
            let z = Sym::konst(0.0);
            if !with_st(|st| st.fork_div_zero) {
                // no fork: the quotient is the IEEE value only if the denominator is forced to zero;
                // otherwise the path continues under the recorded assumption "denominator != 0"
                if eng::assume_nonzero(o.c_eq(z)) {
                    return self.bin(B::Div, o);
                }
                if let Some(a) = self.as_const() {
                    return Sym::konst(a / 0.0);
                }
                return Sym::konst(f64::NAN);
            }
            if eng::decide(o.c_eq(z)) {
                if let Some(a) = self.as_const() {
                    return Sym::konst(a / 0.0);
                }
                if eng::decide(z.c_lt(self)) {
                    return Sym::konst(f64::INFINITY);
                }
                if eng::decide(self.c_lt(z)) {
                    return Sym::konst(f64::NEG_INFINITY);
                }
                return Sym::konst(f64::NAN);
            }
        }
        self.bin(B::Div, o)
    }
}
impl Div for Sym {
    type Output = Sym;
    fn div(self, o: Sym) -> Sym {
        self.div_ieee(o)
    }
}
impl<'a> Div<&'a Sym> for Sym {
    type Output = Sym;
    fn div(self, o: &'a Sym) -> Sym {
        self.div_ieee(*o)
    }
}
impl DivAssign for Sym {
    fn div_assign(&mut self, o: Sym) {
        *self = self.div_ieee(o)
    }
}
impl<'a> DivAssign<&'a Sym> for Sym {
    fn div_assign(&mut self, o: &'a Sym) {
        *self = self.div_ieee(*o)
    }
}
binop!(Rem, rem, RemAssign, rem_assign, B::Rem);

impl Neg for Sym {
    type Output = Sym;
    fn neg(self) -> Sym {
        self.un(U::Neg)
    }
}

impl Zero for Sym {
    fn zero() -> Sym {
        Sym::konst(0.0)
    }
    fn is_zero(&self) -> bool {
        *self == Sym::konst(0.0)
    }
}
impl One for Sym {
    fn one() -> Sym {
        Sym::konst(1.0)
    }
}
impl Num for Sym {
    type FromStrRadixErr = ();
    fn from_str_radix(s: &str, _r: u32) -> Result<Sym, ()> {
        s.parse::<f64>().map(Sym::konst).map_err(|_| ())
    }
}
impl Signed for Sym {
    fn abs(&self) -> Sym {
        self.un(U::Abs)
    }
    fn abs_sub(&self, o: &Sym) -> Sym {
        let d = *self - *o;
        d.bin(B::Max, Sym::konst(0.0))
    }
    fn signum(&self) -> Sym {
        self.un(U::Signum)
    }
    fn is_positive(&self) -> bool {
        *self > Sym::konst(0.0)
    }
    fn is_negative(&self) -> bool {
        *self < Sym::konst(0.0)
    }
}
impl Bounded for Sym {
    fn min_value() -> Sym {
        Sym::konst(f64::MIN)
    }
    fn max_value() -> Sym {
        Sym::konst(f64::MAX)
    }
}
impl FromPrimitive for Sym {
    fn from_i64(n: i64) -> Option<Sym> {
        Some(Sym::konst(n as f64))
    }
    fn from_u64(n: u64) -> Option<Sym> {
        Some(Sym::konst(n as f64))
    }
    fn from_f64(n: f64) -> Option<Sym> {
        Some(Sym::konst(n))
    }
    fn from_f32(n: f32) -> Option<Sym> {
        Some(Sym::konst(n as f64))
    }
}

impl AbsDiffEq for Sym {
    type Epsilon = Sym;
    fn default_epsilon() -> Sym {
        Sym::konst(f64::EPSILON)
    }
    fn abs_diff_eq(&self, o: &Sym, eps: Sym) -> bool {
        Signed::abs(&(*self - *o)) <= eps
    }
}
impl RelativeEq for Sym {
    fn default_max_relative() -> Sym {
        Sym::konst(f64::EPSILON)
    }
    fn relative_eq(&self, o: &Sym, eps: Sym, max_rel: Sym) -> bool {
        let d = Signed::abs(&(*self - *o));
        if d <= eps {
            return true;
        }
        let l = Signed::abs(self).bin(B::Max, Signed::abs(o));
        d <= l * max_rel
    }
}
impl UlpsEq for Sym {
    fn default_max_ulps() -> u32 {
        4
    }
    fn ulps_eq(&self, o: &Sym, eps: Sym, _u: u32) -> bool {
        self.abs_diff_eq(o, eps)
    }
}

impl SimdValue for Sym {
    type Element = Sym;
    type SimdBool = bool;
    fn lanes() -> usize {
        1
    }
    fn splat(v: Sym) -> Sym {
        v
    }
    fn extract(&self, _: usize) -> Sym {
        *self
    }
    unsafe fn extract_unchecked(&self, _: usize) -> Sym {
        *self
    }
    fn replace(&mut self, _: usize, v: Sym) {
        *self = v
    }
    unsafe fn replace_unchecked(&mut self, _: usize, v: Sym) {
        *self = v
    }
    fn select(self, c: bool, o: Sym) -> Sym {
        if c {
            self
        } else {
            o
        }
    }
}
impl Field for Sym {}

impl SubsetOf<Sym> for Sym {
    fn to_superset(&self) -> Sym {
        *self
    }
    fn from_superset_unchecked(e: &Sym) -> Sym {
        *e
    }
    fn is_in_subset(_: &Sym) -> bool {
        true
    }
}
impl SubsetOf<Sym> for f64 {
    fn to_superset(&self) -> Sym {
        Sym::konst(*self)
    }
    fn from_superset_unchecked(e: &Sym) -> f64 {
        e.as_const().unwrap_or(f64::NAN)
    }
    fn is_in_subset(_: &Sym) -> bool {
        true
    }
}
impl SubsetOf<Sym> for f32 {
    fn to_superset(&self) -> Sym {
        Sym::konst(*self as f64)
    }
    fn from_superset_unchecked(e: &Sym) -> f32 {
        e.as_const().unwrap_or(f64::NAN) as f32
    }
    fn is_in_subset(_: &Sym) -> bool {
        true
    }
}

macro_rules! unary_methods {
    ($($m:ident => $op:expr),*) => { $( fn $m(self) -> Sym { self.un($op) } )* }
}

impl ComplexField for Sym {
    type RealField = Sym;
    fn from_real(re: Sym) -> Sym {
        re
    }
    fn real(self) -> Sym {
        self
    }
    fn imaginary(self) -> Sym {
        Sym::konst(0.0)
    }
    fn modulus(self) -> Sym {
        self.un(U::Abs)
    }
    fn modulus_squared(self) -> Sym {
        self * self
    }
    fn argument(self) -> Sym {
        if self >= Sym::konst(0.0) {
            Sym::konst(0.0)
        } else {
            Sym::konst(std::f64::consts::PI)
        }
    }
    fn norm1(self) -> Sym {
        self.un(U::Abs)
    }
    fn scale(self, f: Sym) -> Sym {
        self * f
    }
    fn unscale(self, f: Sym) -> Sym {
        self / f
    }
    unary_methods!(floor => U::Floor, ceil => U::Ceil, round => U::Round, trunc => U::Trunc,
        sin => U::Sin, cos => U::Cos, tan => U::Tan, asin => U::Asin, acos => U::Acos, atan => U::Atan,
        sinh => U::Sinh, cosh => U::Cosh, tanh => U::Tanh, asinh => U::Asinh, acosh => U::Acosh, atanh => U::Atanh,
        log2 => U::Log2, log10 => U::Log10, ln => U::Ln, sqrt => U::Sqrt, exp => U::Exp, exp2 => U::Exp2, cbrt => U::Cbrt);
    fn fract(self) -> Sym {
        self - self.un(U::Trunc)
    }
    fn mul_add(self, a: Sym, b: Sym) -> Sym {
        self * a + b
    }
    fn abs(self) -> Sym {
        self.un(U::Abs)
    }
    fn hypot(self, o: Sym) -> Sym {
        self.bin(B::Hypot, o)
    }
    fn recip(self) -> Sym {
        Sym::konst(1.0) / self
    }
    fn conjugate(self) -> Sym {
        self
    }
    fn sin_cos(self) -> (Sym, Sym) {
        (self.un(U::Sin), self.un(U::Cos))
    }
    fn log(self, base: Sym) -> Sym {
        self.un(U::Ln) / base.un(U::Ln)
    }
    fn ln_1p(self) -> Sym {
        (self + Sym::konst(1.0)).un(U::Ln)
    }
    fn exp_m1(self) -> Sym {
        self.un(U::Exp) - Sym::konst(1.0)
    }
    fn powi(self, n: i32) -> Sym {
        with_st(|st| Sym(st.arena.powi(self.0, n)))
    }
    fn powf(self, n: Sym) -> Sym {
        self.bin(B::Powf, n)
    }
    fn powc(self, n: Sym) -> Sym {
        self.bin(B::Powf, n)
    }
    fn is_finite(&self) -> bool {
        match self.as_const() {
            Some(c) => c.is_finite(),
            None => true,
        }
    }
    fn try_sqrt(self) -> Option<Sym> {
        if self >= Sym::konst(0.0) {
            Some(self.un(U::Sqrt))
        } else {
            None
        }
    }
}

impl RealField for Sym {
    fn is_sign_positive(&self) -> bool {
        if let Some(c) = self.as_const() {
            return c.is_sign_positive();
        }
        let z = Sym::konst(0.0);
        if eng::decide(z.c_lt(*self)) {
            return true;
        }
        if eng::decide(self.c_lt(z)) {
            return false;
        }
        // exactly zero: either sign of zero (free boolean per term)
        let sb = with_st(|st| st.arena.cmk(CNode::SignBit(self.0)));
        !eng::decide(sb)
    }
    fn is_sign_negative(&self) -> bool {
        !RealField::is_sign_positive(self)
    }
    fn copysign(self, s: Sym) -> Sym {
        self.bin(B::Copysign, s)
    }
    fn max(self, o: Sym) -> Sym {
        self.bin(B::Max, o)
    }
    fn min(self, o: Sym) -> Sym {
        self.bin(B::Min, o)
    }
    fn clamp(self, lo: Sym, hi: Sym) -> Sym {
        self.bin(B::Max, lo).bin(B::Min, hi)
    }
    fn atan2(self, o: Sym) -> Sym {
        self.bin(B::Atan2, o)
    }
    fn min_value() -> Option<Sym> {
        Some(Sym::konst(f64::MIN))
    }
    fn max_value() -> Option<Sym> {
        Some(Sym::konst(f64::MAX))
    }
    fn pi() -> Sym {
        Sym::konst(std::f64::consts::PI)
    }
    fn two_pi() -> Sym {
        Sym::konst(2.0 * std::f64::consts::PI)
    }
    fn frac_pi_2() -> Sym {
        Sym::konst(std::f64::consts::FRAC_PI_2)
    }
    fn frac_pi_3() -> Sym {
        Sym::konst(std::f64::consts::FRAC_PI_3)
    }
    fn frac_pi_4() -> Sym {
        Sym::konst(std::f64::consts::FRAC_PI_4)
    }
    fn frac_pi_6() -> Sym {
        Sym::konst(std::f64::consts::FRAC_PI_6)
    }
    fn frac_pi_8() -> Sym {
        Sym::konst(std::f64::consts::FRAC_PI_8)
    }
    fn frac_1_pi() -> Sym {
        Sym::konst(std::f64::consts::FRAC_1_PI)
    }
    fn frac_2_pi() -> Sym {
        Sym::konst(std::f64::consts::FRAC_2_PI)
    }
    fn frac_2_sqrt_pi() -> Sym {
        Sym::konst(std::f64::consts::FRAC_2_SQRT_PI)
    }
    fn e() -> Sym {
        Sym::konst(std::f64::consts::E)
    }
    fn log2_e() -> Sym {
        Sym::konst(std::f64::consts::LOG2_E)
    }
    fn log10_e() -> Sym {
        Sym::konst(std::f64::consts::LOG10_E)
    }
    fn ln_2() -> Sym {
        Sym::konst(std::f64::consts::LN_2)
    }
    fn ln_10() -> Sym {
        Sym::konst(std::f64::consts::LN_10)
    }
}

// ---------------------------------------------------------------------
// `Sc`: the harness-facing scalar interface, implemented by `Sym` (symbolic
// run, solver-decided) and by `f64` (native replay of solver models).

pub trait Sc: RealField + FromPrimitive + Copy + 'static {
    type Bl: Copy;
    const SYMBOLIC: bool;
    fn lit(x: f64) -> Self;
    /// exact rational constant (reference formulas)
    fn rat(p: i64, q: i64) -> Self;
    /// symbolic input in [lo, hi] (use f64::NEG_INFINITY / INFINITY for unbounded)
    fn input(name: &str, lo: f64, hi: f64) -> Self;
    /// value of an arbitrary (memoised) function `fname` at `args`, range [lo, hi]
    fn tape(fname: &str, args: &[Self], lo: f64, hi: f64) -> Self;
    fn b_lt(a: Self, b: Self) -> Self::Bl;
    fn b_le(a: Self, b: Self) -> Self::Bl;
    fn b_eq(a: Self, b: Self) -> Self::Bl;
    fn b_not(a: Self::Bl) -> Self::Bl;
    fn b_and(a: Self::Bl, b: Self::Bl) -> Self::Bl;
    fn b_or(a: Self::Bl, b: Self::Bl) -> Self::Bl;
    fn b_const(v: bool) -> Self::Bl;
    fn assume(c: Self::Bl);
    fn prove(name: &str, c: Self::Bl);
    /// obligation with a stronger negation used to extract a counterexample with margin
    fn prove_m(name: &str, c: Self::Bl, strong_neg: Self::Bl);
    fn reach(name: &str);
    fn control(name: &str);
    /// symbolic run only: do not fork on "denominator == 0" (assume denominators non-zero unless forced)
    fn no_div_zero_forks();
    /// symbolic run only: switch the rounding model of +,-,*,/ on or off (native runs round by themselves)
    fn rounding(on: bool);
    /// does the current path condition entail `c`?  (a solver query that is not recorded as an
    /// obligation; used by harnesses to look values up in call logs.  Native: evaluates `c`.)
    fn holds(c: Self::Bl) -> bool;
    /// cheap numeric filter (never a verdict): do `a` and `b` agree at two pseudo-random points of the input box?
    fn probably_equal(a: Self, b: Self) -> bool;
    /// concrete value if the scalar is a constant (always Some for f64)
    fn concrete(self) -> Option<f64>;
    /// identity of the term (node id for Sym; bits for f64) — used to recognise recorded values
    fn ident(self) -> u64;
    fn sabs(self) -> Self {
        ComplexField::abs(self)
    }
    fn smax(self, o: Self) -> Self {
        RealField::max(self, o)
    }
    fn smin(self, o: Self) -> Self {
        RealField::min(self, o)
    }
    /// |a - b| <= tol
    fn b_close(a: Self, b: Self, tol: Self) -> Self::Bl {
        Self::b_le((a - b).sabs(), tol)
    }
    fn b_gt(a: Self, b: Self) -> Self::Bl {
        Self::b_lt(b, a)
    }
    fn b_ge(a: Self, b: Self) -> Self::Bl {
        Self::b_le(b, a)
    }
    fn b_implies(a: Self::Bl, b: Self::Bl) -> Self::Bl {
        Self::b_or(Self::b_not(a), b)
    }
}

fn opt(x: f64) -> Option<f64> {
    if x.is_finite() {
        Some(x)
    } else {
        None
    }
}

impl Sc for Sym {
    type Bl = u32;
    const SYMBOLIC: bool = true;
    fn lit(x: f64) -> Sym {
        Sym::konst(x)
    }
    fn rat(p: i64, q: i64) -> Sym {
        with_st(|st| Sym(st.arena.mk(Node::Rat(p, q))))
    }
    fn input(name: &str, lo: f64, hi: f64) -> Sym {
        with_st(|st| Sym(st.arena.var(name, opt(lo), opt(hi))))
    }
    fn tape(fname: &str, args: &[Sym], lo: f64, hi: f64) -> Sym {
        let ids: Vec<u32> = args.iter().map(|s| s.0).collect();
        with_st(|st| Sym(st.arena.tape(fname, &ids, opt(lo), opt(hi))))
    }
    fn b_lt(a: Sym, b: Sym) -> u32 {
        a.c_lt(b)
    }
    fn b_le(a: Sym, b: Sym) -> u32 {
        a.c_le(b)
    }
    fn b_eq(a: Sym, b: Sym) -> u32 {
        a.c_eq(b)
    }
    fn b_not(a: u32) -> u32 {
        with_st(|st| st.arena.not(a))
    }
    fn b_and(a: u32, b: u32) -> u32 {
        with_st(|st| st.arena.and(a, b))
    }
    fn b_or(a: u32, b: u32) -> u32 {
        with_st(|st| st.arena.or(a, b))
    }
    fn b_const(v: bool) -> u32 {
        if v {
            C_TRUE
        } else {
            C_FALSE
        }
    }
    fn assume(c: u32) {
        eng::assume(c)
    }
    fn prove(name: &str, c: u32) {
        eng::prove(name, c, None)
    }
    fn prove_m(name: &str, c: u32, strong_neg: u32) {
        eng::prove(name, c, Some(strong_neg))
    }
    fn reach(name: &str) {
        eng::reach(name)
    }
    fn control(name: &str) {
        eng::control(name)
    }
    fn no_div_zero_forks() {
        eng::set_fork_div_zero(false)
    }
    fn rounding(on: bool) {
        eng::set_rounding(on)
    }
    fn holds(c: u32) -> bool {
        eng::entails(c)
    }
    fn probably_equal(a: Sym, b: Sym) -> bool {
        if a.0 == b.0 {
            return true;
        }
        with_st(|st| {
            for salt in [0x9E3779B97F4A7C15u64, 0xD1B54A32D192ED03u64] {
                let vars = &st.arena.vars;
                let env = |v: u32| -> f64 {
                    let vi = &vars[v as usize];
                    let mut h = (v as u64 + 1).wrapping_mul(salt);
                    h ^= h >> 29;
                    h = h.wrapping_mul(0xBF58476D1CE4E5B9);
                    h ^= h >> 32;
                    let u = (h >> 11) as f64 / (1u64 << 53) as f64;
                    let lo = vi.lo.unwrap_or(-1.0);
                    let hi = vi.hi.unwrap_or(lo + 2.0);
                    lo + (hi - lo) * (0.25 + 0.5 * u)
                };
                let mut cache = std::collections::HashMap::new();
                let x = st.arena.eval(a.0, &env, &mut cache);
                let y = st.arena.eval(b.0, &env, &mut cache);
                if !((x - y).abs() <= 1e-9 * (1.0 + x.abs().max(y.abs()))) {
                    return false;
                }
            }
            true
        })
    }
    fn concrete(self) -> Option<f64> {
        with_st(|st| st.arena.as_ground(self.0))
    }
    fn ident(self) -> u64 {
        self.0 as u64
    }
}

impl Sc for f64 {
    type Bl = bool;
    const SYMBOLIC: bool = false;
    fn lit(x: f64) -> f64 {
        x
    }
    fn rat(p: i64, q: i64) -> f64 {
        p as f64 / q as f64
    }
    fn input(name: &str, lo: f64, hi: f64) -> f64 {
        eng::rp_input(name, lo, hi)
    }
    fn tape(fname: &str, args: &[f64], lo: f64, hi: f64) -> f64 {
        eng::rp_tape(fname, args, lo, hi)
    }
    fn b_lt(a: f64, b: f64) -> bool {
        a < b
    }
    fn b_le(a: f64, b: f64) -> bool {
        a <= b
    }
    fn b_eq(a: f64, b: f64) -> bool {
        a == b
    }
    fn b_not(a: bool) -> bool {
        !a
    }
    fn b_and(a: bool, b: bool) -> bool {
        a && b
    }
    fn b_or(a: bool, b: bool) -> bool {
        a || b
    }
    fn b_const(v: bool) -> bool {
        v
    }
    fn assume(c: bool) {
        eng::rp_assume(c)
    }
    fn prove(name: &str, c: bool) {
        eng::rp_prove(name, c)
    }
    fn prove_m(name: &str, c: bool, _s: bool) {
        eng::rp_prove(name, c)
    }
    fn reach(_name: &str) {}
    fn control(_name: &str) {}
    fn no_div_zero_forks() {}
    fn rounding(_on: bool) {}
    fn holds(c: bool) -> bool {
        c
    }
    fn probably_equal(a: f64, b: f64) -> bool {
        (a - b).abs() <= 1e-9 * (1.0 + a.abs().max(b.abs()))
    }
    fn concrete(self) -> Option<f64> {
        Some(self)
    }
    fn ident(self) -> u64 {
        self.to_bits()
    }
}
