//! Minimal exact arithmetic on dyadic rationals (mantissa * 2^exp with an arbitrary-precision
//! integer mantissa).  Every IEEE double is a dyadic rational and dyadics are closed under +, -, *,
//! so affine combinations of symbolic variables with double coefficients are represented exactly.

use std::cmp::Ordering;

#[derive(Clone, Debug, PartialEq, Eq, Hash)]
pub struct BigU(pub Vec<u32>); // little endian, no trailing zero limbs

impl BigU {
    pub fn zero() -> Self {
        BigU(vec![])
    }
    pub fn from_u64(v: u64) -> Self {
        let mut d = vec![];
        if v != 0 {
            d.push(v as u32);
            if (v >> 32) != 0 {
                d.push((v >> 32) as u32);
            }
        }
        BigU(d)
    }
    pub fn is_zero(&self) -> bool {
        self.0.is_empty()
    }
    fn trim(&mut self) {
        while let Some(&0) = self.0.last() {
            self.0.pop();
        }
    }
    pub fn cmp(&self, o: &BigU) -> Ordering {
        if self.0.len() != o.0.len() {
            return self.0.len().cmp(&o.0.len());
        }
        for i in (0..self.0.len()).rev() {
            if self.0[i] != o.0[i] {
                return self.0[i].cmp(&o.0[i]);
            }
        }
        Ordering::Equal
    }
    pub fn add(&self, o: &BigU) -> BigU {
        let n = self.0.len().max(o.0.len());
        let mut out = Vec::with_capacity(n + 1);
        let mut carry = 0u64;
        for i in 0..n {
            let a = *self.0.get(i).unwrap_or(&0) as u64;
            let b = *o.0.get(i).unwrap_or(&0) as u64;
            let s = a + b + carry;
            out.push(s as u32);
            carry = s >> 32;
        }
        if carry != 0 {
            out.push(carry as u32);
        }
        BigU(out)
    }
    /// self - o, requires self >= o
    pub fn sub(&self, o: &BigU) -> BigU {
        let mut out = Vec::with_capacity(self.0.len());
        let mut borrow = 0i64;
        for i in 0..self.0.len() {
            let a = self.0[i] as i64;
            let b = *o.0.get(i).unwrap_or(&0) as i64;
            let mut d = a - b - borrow;
            if d < 0 {
                d += 1 << 32;
                borrow = 1;
            } else {
                borrow = 0;
            }
            out.push(d as u32);
        }
        let mut r = BigU(out);
        r.trim();
        r
    }
    pub fn mul(&self, o: &BigU) -> BigU {
        if self.is_zero() || o.is_zero() {
            return BigU::zero();
        }
        let mut out = vec![0u32; self.0.len() + o.0.len()];
        for i in 0..self.0.len() {
            let mut carry = 0u64;
            let a = self.0[i] as u64;
            for j in 0..o.0.len() {
                let t = a * (o.0[j] as u64) + out[i + j] as u64 + carry;
                out[i + j] = t as u32;
                carry = t >> 32;
            }
            let mut k = i + o.0.len();
            while carry != 0 {
                let t = out[k] as u64 + carry;
                out[k] = t as u32;
                carry = t >> 32;
                k += 1;
            }
        }
        let mut r = BigU(out);
        r.trim();
        r
    }
    pub fn shl(&self, bits: u32) -> BigU {
        if self.is_zero() || bits == 0 {
            return self.clone();
        }
        let limbs = (bits / 32) as usize;
        let b = bits % 32;
        let mut out = vec![0u32; limbs];
        if b == 0 {
            out.extend_from_slice(&self.0);
        } else {
            let mut carry = 0u32;
            for &x in &self.0 {
                out.push((x << b) | carry);
                carry = x >> (32 - b);
            }
            if carry != 0 {
                out.push(carry);
            }
        }
        BigU(out)
    }
    pub fn bit_len(&self) -> u32 {
        match self.0.last() {
            None => 0,
            Some(&x) => (self.0.len() as u32 - 1) * 32 + (32 - x.leading_zeros()),
        }
    }
    pub fn trailing_zeros(&self) -> u32 {
        let mut n = 0;
        for &x in &self.0 {
            if x == 0 {
                n += 32;
            } else {
                return n + x.trailing_zeros();
            }
        }
        n
    }
    pub fn shr(&self, bits: u32) -> BigU {
        let limbs = (bits / 32) as usize;
        if limbs >= self.0.len() {
            return BigU::zero();
        }
        let b = bits % 32;
        let mut out = Vec::with_capacity(self.0.len() - limbs);
        for i in limbs..self.0.len() {
            let lo = self.0[i] >> b;
            let hi = if b > 0 && i + 1 < self.0.len() { self.0[i + 1] << (32 - b) } else { 0 };
            out.push(lo | hi);
        }
        let mut r = BigU(out);
        r.trim();
        r
    }
    fn divrem_small(&mut self, d: u32) -> u32 {
        let mut rem = 0u64;
        for i in (0..self.0.len()).rev() {
            let cur = (rem << 32) | self.0[i] as u64;
            self.0[i] = (cur / d as u64) as u32;
            rem = cur % d as u64;
        }
        self.trim();
        rem as u32
    }
    pub fn to_decimal(&self) -> String {
        if self.is_zero() {
            return "0".to_string();
        }
        let mut t = self.clone();
        let mut parts = vec![];
        while !t.is_zero() {
            parts.push(t.divrem_small(1_000_000_000));
        }
        let mut s = format!("{}", parts.pop().unwrap());
        while let Some(p) = parts.pop() {
            s.push_str(&format!("{:09}", p));
        }
        s
    }
    pub fn to_f64(&self) -> f64 {
        let mut v = 0.0f64;
        for &x in self.0.iter().rev() {
            v = v * 4294967296.0 + x as f64;
        }
        v
    }
}

/// exact dyadic rational: (-1)^neg * mant * 2^exp
#[derive(Clone, Debug, PartialEq, Eq, Hash)]
pub struct Dy {
    pub neg: bool,
    pub mant: BigU,
    pub exp: i32,
}

impl Dy {
    pub fn zero() -> Dy {
        Dy { neg: false, mant: BigU::zero(), exp: 0 }
    }
    pub fn one() -> Dy {
        Dy { neg: false, mant: BigU::from_u64(1), exp: 0 }
    }
    pub fn is_zero(&self) -> bool {
        self.mant.is_zero()
    }
    pub fn from_f64(x: f64) -> Option<Dy> {
        if !x.is_finite() {
            return None;
        }
        if x == 0.0 {
            return Some(Dy::zero());
        }
        let bits = x.to_bits();
        let neg = (bits >> 63) != 0;
        let e = ((bits >> 52) & 0x7ff) as i32;
        let frac = bits & ((1u64 << 52) - 1);
        let (mant, exp) = if e == 0 { (frac, -1074) } else { (frac | (1u64 << 52), e - 1075) };
        let mut d = Dy { neg, mant: BigU::from_u64(mant), exp };
        d.normalize();
        Some(d)
    }
    pub fn normalize(&mut self) {
        if self.mant.is_zero() {
            self.neg = false;
            self.exp = 0;
            return;
        }
        let tz = self.mant.trailing_zeros();
        if tz > 0 {
            self.mant = self.mant.shr(tz);
            self.exp += tz as i32;
        }
    }
    pub fn neg(&self) -> Dy {
        let mut d = self.clone();
        if !d.mant.is_zero() {
            d.neg = !d.neg;
        }
        d
    }
    pub fn mul(&self, o: &Dy) -> Dy {
        if self.is_zero() || o.is_zero() {
            return Dy::zero();
        }
        Dy { neg: self.neg != o.neg, mant: self.mant.mul(&o.mant), exp: self.exp + o.exp }
    }
    pub fn add(&self, o: &Dy) -> Dy {
        if self.is_zero() {
            return o.clone();
        }
        if o.is_zero() {
            return self.clone();
        }
        let e = self.exp.min(o.exp);
        let a = self.mant.shl((self.exp - e) as u32);
        let b = o.mant.shl((o.exp - e) as u32);
        let mut r = if self.neg == o.neg {
            Dy { neg: self.neg, mant: a.add(&b), exp: e }
        } else {
            match a.cmp(&b) {
                Ordering::Equal => Dy::zero(),
                Ordering::Greater => Dy { neg: self.neg, mant: a.sub(&b), exp: e },
                Ordering::Less => Dy { neg: o.neg, mant: b.sub(&a), exp: e },
            }
        };
        r.normalize();
        r
    }
    pub fn to_f64(&self) -> f64 {
        let v = self.mant.to_f64() * 2f64.powi(self.exp.clamp(-1070, 1020));
        // (only used for diagnostics; exact value is the SMT literal)
        if self.neg {
            -v
        } else {
            v
        }
    }
    /// keep the top `bits` bits of the mantissa (truncation); returns the shortened value and an
    /// upper bound of |self - shortened| (a power of two), or None if nothing had to be dropped
    pub fn shorten(&self, bits: u32) -> Option<(Dy, Dy)> {
        let bl = self.mant.bit_len();
        if bl <= bits {
            return None;
        }
        let drop = bl - bits;
        let mut r = Dy { neg: self.neg, mant: self.mant.shr(drop), exp: self.exp + drop as i32 };
        r.normalize();
        let err = Dy { neg: false, mant: BigU::from_u64(1), exp: self.exp + drop as i32 };
        Some((r, err))
    }
    /// an upper bound of |self| with a mantissa of at most `bits` bits
    pub fn round_up_abs(&self, bits: u32) -> Dy {
        let bl = self.mant.bit_len();
        if bl <= bits {
            return Dy { neg: false, mant: self.mant.clone(), exp: self.exp };
        }
        let drop = bl - bits;
        let m = self.mant.shr(drop).add(&BigU::from_u64(1));
        Dy { neg: false, mant: m, exp: self.exp + drop as i32 }
    }
    pub fn abs(&self) -> Dy {
        Dy { neg: false, mant: self.mant.clone(), exp: self.exp }
    }
    /// exact SMT-LIB Real literal
    pub fn smt(&self) -> String {
        if self.is_zero() {
            return "0.0".into();
        }
        let body = if self.exp >= 0 {
            format!("{}.0", self.mant.shl(self.exp as u32).to_decimal())
        } else {
            format!("(/ {}.0 {}.0)", self.mant.to_decimal(), BigU::from_u64(1).shl((-self.exp) as u32).to_decimal())
        };
        if self.neg {
            format!("(- {})", body)
        } else {
            body
        }
    }
}

#[cfg(test)]
mod t {
    use super::*;
    #[test]
    fn dyadic_arith() {
        let a = Dy::from_f64(0.1).unwrap();
        let b = Dy::from_f64(0.2).unwrap();
        let s = a.add(&b);
        // exact sum differs from fl(0.1+0.2) but is close
        assert!((s.to_f64() - 0.30000000000000004).abs() < 1e-15);
        let p = a.mul(&b);
        assert!((p.to_f64() - 0.020000000000000004).abs() < 1e-16);
        let z = a.add(&a.neg());
        assert!(z.is_zero());
        assert_eq!(Dy::from_f64(0.5).unwrap().smt(), "(/ 1.0 2.0)");
        assert_eq!(Dy::from_f64(-3.0).unwrap().smt(), "(- 3.0)");
        assert_eq!(Dy::from_f64(1e20).unwrap().smt(), "100000000000000000000.0");
        let big = BigU::from_u64(u64::MAX).mul(&BigU::from_u64(u64::MAX));
        assert_eq!(big.to_decimal(), "340282366920938463426481119284349108225");
    }
}
