use std::collections::HashMap;
use symx::ev::{candidate_from_json, parse_json};
use symx::h::{run_property, Tier};

fn main() {
    let args: Vec<String> = std::env::args().collect();
    if args.len() < 2 {
        eprintln!("usage: symx <property id> [--tier quick|thorough] [--seed N] [--replay path] [--only substr] [--verif dir]");
        std::process::exit(2);
    }
    let id = args[1].clone();
    let mut tier = std::env::var("VERIF_TIER").unwrap_or_else(|_| "quick".into());
    let mut seed: i64 = std::env::var("VERIF_SEED").ok().and_then(|s| s.parse().ok()).unwrap_or(1);
    let mut replay: Option<String> = None;
    let mut only: Option<String> = None;
    let mut verif = "/verif".to_string();
    let mut threads: usize = std::env::var("VERIF_THREADS").ok().and_then(|s| s.parse().ok()).unwrap_or(12);
    let mut i = 2;
    while i < args.len() {
        match args[i].as_str() {
            "--tier" => {
                tier = args[i + 1].clone();
                i += 1;
            }
            "--seed" => {
                seed = args[i + 1].parse().unwrap_or(1);
                i += 1;
            }
            "--replay" => {
                replay = Some(args[i + 1].clone());
                i += 1;
            }
            "--only" => {
                only = Some(args[i + 1].clone());
                i += 1;
            }
            "--verif" => {
                verif = args[i + 1].clone();
                i += 1;
            }
            "--threads" => {
                threads = args[i + 1].parse().unwrap_or(12);
                i += 1;
            }
            _ => {}
        }
        i += 1;
    }
    let t = Tier { thorough: tier == "thorough", seed, threads };
    if let Some(path) = replay {
        let txt = std::fs::read_to_string(&path).expect("cannot read replay file");
        let j = parse_json(&txt).expect("replay file is not JSON");
        let (h, inputs, tapes) = candidate_from_json(&j).expect("replay file lacks harness/inputs");
        let pr = run_property(&id, &t, Some((h.clone(), inputs, tapes)), None).expect("unknown property");
        match pr.replay_out {
            Some(out) => {
                println!("replay of {} on the native f64 build: failures={:?} panic={:?} checked={}", h, out.failures, out.panic_msg, out.checked);
                if !out.failures.is_empty() || out.panic_msg.is_some() {
                    println!("VIOLATION property={} replay={}", id, path);
                    std::process::exit(1);
                }
                std::process::exit(0);
            }
            None => {
                eprintln!("harness {} not found for this tier/seed", h);
                std::process::exit(2);
            }
        }
    }
    let _ = HashMap::<String, f64>::new();
    println!("symx: property {} tier {} seed {} threads {}", id, tier, seed, threads);
    match run_property(&id, &t, None, only.clone()) {
        Some(mut pr) => {
            if only.is_some() {
                // development filter: do not overwrite evidence
                let code = pr.finish("/tmp/symx-dev");
                std::process::exit(code);
            }
            let code = pr.finish(&verif);
            std::process::exit(code);
        }
        None => {
            eprintln!("unknown property {}", id);
            std::process::exit(2);
        }
    }
}
