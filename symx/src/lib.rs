pub mod arena;
pub mod big;
pub mod eng;
pub mod ev;
pub mod smt;
pub mod sym;
pub mod h;
pub use eng::{explore, Cfg, Report};
pub use sym::{Sc, Sym};
