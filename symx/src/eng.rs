//! Path exploration engine: re-execution symbolic execution of real library
//! code instantiated at the `Sym` scalar.  Comparisons on symbolic values call
//! `decide`, obligations call `prove`; all verdicts come from the SMT solver.

use crate::arena::*;
use crate::smt::*;
use std::cell::RefCell;
use std::collections::{BTreeSet, HashMap, VecDeque};
use std::panic::{catch_unwind, AssertUnwindSafe};
use std::sync::atomic::{AtomicBool, AtomicUsize, Ordering};
use std::sync::{Arc, Condvar, Mutex};
use std::time::Instant;

#[derive(Clone, Debug)]
pub struct Cfg {
    pub name: String,
    pub max_decisions: usize,
    pub max_paths: usize,
    pub query_timeout_s: f64,
    pub threads: usize,
    /// number of feasible paths whose path-condition model is replayed natively
    pub validate_paths: usize,
    pub cross_check: bool,
    pub wall_budget_s: f64,
    /// per-query limit for branch feasibility checks (an undecided branch is explored: sound)
    pub feas_timeout_s: f64,
}

impl Cfg {
    pub fn new(name: &str) -> Self {
        Cfg {
            name: name.to_string(),
            max_decisions: 400,
            max_paths: 2000,
            query_timeout_s: 20.0,
            threads: 8,
            validate_paths: 3,
            cross_check: true,
            wall_budget_s: 600.0,
            feas_timeout_s: 5.0,
        }
    }
}

#[derive(Clone, Debug, PartialEq)]
pub enum ObStatus {
    Discharged,
    /// solver found a model of path ∧ ¬obligation
    Candidate,
    Undecided,
}

#[derive(Clone, Debug)]
pub struct ObRecord {
    pub name: String,
    pub status: ObStatus,
    pub model: HashMap<String, f64>,
    pub tapes: Vec<TapeSample>,
    pub smt_bytes: usize,
    pub nonlinear: bool,
    pub solver_s: f64,
    pub trivial: bool,
    /// further models of the same violated obligation, anchored at pseudo-random points of the input box (a model at
    /// a corner of the box can be degenerate in floating point; see `confirm_native`)
    pub alt_models: Vec<(HashMap<String, f64>, Vec<TapeSample>)>,
}

#[derive(Clone, Debug)]
pub struct TapeSample {
    pub fname: String,
    pub args: Vec<f64>,
    pub value: f64,
}

#[derive(Clone, Debug, Default)]
pub struct PathResult {
    pub decisions: Vec<bool>,
    pub forks: Vec<Vec<bool>>,
    pub obligations: Vec<ObRecord>,
    pub reached: Vec<String>,
    pub controls_ok: usize,
    pub controls_bad: Vec<String>,
    pub cut: Option<String>,
    pub infeasible: bool,
    pub panic_msg: Option<String>,
    pub panic_model: Option<(HashMap<String, f64>, Vec<TapeSample>)>,
    pub n_decisions: usize,
    pub n_forced: usize,
    pub n_queries: u64,
    pub n_unknown_feas: usize,
    pub solver_s: f64,
    pub solver_errors: u64,
    pub solver_timeouts: u64,
    pub last_error: String,
    pub nodes: usize,
    pub pc_model: Option<(HashMap<String, f64>, Vec<TapeSample>)>,
    pub notes: Vec<String>,
    pub fallback_used: u64,
}

pub struct PathState {
    pub arena: Arena,
    pub pc: Vec<(u32, bool)>,
    memo: HashMap<u32, bool>,
    tape: Vec<bool>,
    pub decisions: Vec<bool>,
    forks: Vec<Vec<bool>>,
    obligations: Vec<ObRecord>,
    reached: Vec<String>,
    controls_ok: usize,
    controls_bad: Vec<String>,
    n_forced: usize,
    n_unknown_feas: usize,
    notes: Vec<String>,
    cfg: Cfg,
    solver: Solver,
    solver2: Solver,
    pub fallback_used: u64,
    lin_cache: HashMap<u32, bool>,
    pub lin_stage_hits: u64,
    /// obligations already discharged on this path (the path condition only grows)
    proved: std::collections::HashSet<u32>,
    dump_next: Option<String>,
    memo_hits: u64,
    /// fork on "denominator == 0" (IEEE-faithful) or assume denominators non-zero (recorded)
    pub fork_div_zero: bool,
    pub assumed_nonzero: u64,
    /// decision log for harness introspection: (cond id, value)
    pub log: Vec<(u32, bool)>,
    want_pc_model: bool,
    pc_model: Option<(HashMap<String, f64>, Vec<TapeSample>)>,
    /// when set, symbolic sqrt nodes are replaced by fresh non-negative variables (norm abstraction)
    pub abstract_sqrt: bool,
    /// rounding model: every symbolic +,-,*,/ result r becomes r + e(r) with |e(r)| <= 2^-53 |r| (e a function of r)
    pub rounding: bool,
    pub rounded_ops: usize,
    pub alt_budget: usize,
    pub path_t0: std::time::Instant,
    pub fresh_counter: u32,
}

thread_local! {
    pub static ST: RefCell<Option<PathState>> = RefCell::new(None);
    static SOLVER_CACHE: RefCell<Option<(Solver, Solver)>> = RefCell::new(None);
}

pub struct CutPath(pub String);
pub struct InfeasiblePath;

pub fn with_st<R>(f: impl FnOnce(&mut PathState) -> R) -> R {
    ST.with(|s| {
        let mut b = s.borrow_mut();
        let st = b.as_mut().expect("symbolic scalar used outside of an exploration");
        f(st)
    })
}

pub fn in_exploration() -> bool {
    ST.with(|s| s.borrow().is_some())
}

impl PathState {
    fn slice(&mut self, seeds: &[u32]) -> Vec<(u32, bool)> {
        // cone of influence: path conditions sharing variables (transitively) with the seeds
        let mut vars: BTreeSet<u32> = BTreeSet::new();
        for &c in seeds {
            for &v in self.arena.csupport(c).iter() {
                vars.insert(v);
            }
        }
        let n = self.pc.len();
        let mut included = vec![false; n];
        let sups: Vec<_> = (0..n).map(|i| self.arena.csupport(self.pc[i].0)).collect();
        loop {
            let mut changed = false;
            for i in 0..n {
                if included[i] {
                    continue;
                }
                if sups[i].iter().any(|v| vars.contains(v)) {
                    included[i] = true;
                    for &v in sups[i].iter() {
                        vars.insert(v);
                    }
                    changed = true;
                }
            }
            if !changed {
                break;
            }
        }
        (0..n).filter(|&i| included[i]).map(|i| self.pc[i]).collect()
    }

    /// build query text for  (slice of PC) ∧ extra
    fn cond_is_linear(&mut self, c: u32) -> bool {
        if let Some(&b) = self.lin_cache.get(&c) {
            return b;
        }
        let mut em = Emit::new(&self.arena);
        em.visit_cond(c);
        let b = !em.nonlinear && !em.has_nonfinite;
        self.lin_cache.insert(c, b);
        b
    }

    fn query_text(&mut self, extra: &[(u32, bool)], full: bool, lin_only: bool) -> (String, bool, bool, Vec<u32>) {
        let seeds: Vec<u32> = extra.iter().map(|x| x.0).collect();
        let mut pcs = if full { self.pc.clone() } else { self.slice(&seeds) };
        if lin_only {
            let mut keep = vec![];
            for (c, v) in pcs.into_iter() {
                if self.cond_is_linear(c) {
                    keep.push((c, v));
                }
            }
            pcs = keep;
        }
        let mut em = Emit::new(&self.arena);
        for (c, _) in pcs.iter().chain(extra.iter()) {
            em.visit_cond(*c);
        }
        let mut body = em.preamble();
        for (c, v) in pcs.iter().chain(extra.iter()) {
            let s = em.cond_str(*c);
            if *v {
                body.push_str(&format!("(assert {})\n", s));
            } else {
                body.push_str(&format!("(assert (not {}))\n", s));
            }
        }
        let vars: Vec<u32> = em.used_vars.iter().cloned().collect();
        (body, em.nonlinear, em.has_nonfinite, vars)
    }

    /// full-path query whose inequality atoms are tightened by an absolute margin `delta`, so
    /// that the model stays on the same side of every branch after rounding to doubles
    fn check_robust(&mut self, extra: &[(u32, bool)], delta: f64, diversify: bool) -> (Verdict, HashMap<String, f64>) {
        let pcs = self.pc.clone();
        let mut em = Emit::new(&self.arena);
        for (c, _) in pcs.iter().chain(extra.iter()) {
            em.visit_cond(*c);
        }
        if em.has_nonfinite {
            return (Verdict::Unknown, HashMap::new());
        }
        let mut body = em.preamble();
        let d = real_lit(delta);
        let _ = &mut body;
        for (c, v) in pcs.iter().chain(extra.iter()) {
            let line = match (&self.arena.conds[*c as usize], *v) {
                (CNode::Lt(a, b), true) | (CNode::Le(a, b), true) => format!("(assert (<= (+ {} {}) {}))\n", em.nref_pub(*a), d, em.nref_pub(*b)),
                (CNode::Lt(a, b), false) | (CNode::Le(a, b), false) => format!("(assert (<= (+ {} {}) {}))\n", em.nref_pub(*b), d, em.nref_pub(*a)),
                (_, true) => format!("(assert {})\n", em.cond_str(*c)),
                (_, false) => format!("(assert (not {}))\n", em.cond_str(*c)),
            };
            body.push_str(&line);
        }
        // functional consistency of the tape functions (Ackermann expansion): two applications of the same
        // function with equal arguments have equal values -- the syntactic memoisation only identifies identical terms
        {
            let tvars: Vec<u32> = em.used_vars.iter().cloned().filter(|v| self.arena.vars[*v as usize].tape.is_some()).collect();
            // argument terms must be part of the query
            let mut em2 = Emit::new(&self.arena);
            for (c, _) in pcs.iter().chain(extra.iter()) {
                em2.visit_cond(*c);
            }
            let mut pairs: Vec<(u32, u32)> = vec![];
            for i in 0..tvars.len() {
                for j in 0..i {
                    let (a, b) = (&self.arena.vars[tvars[i] as usize], &self.arena.vars[tvars[j] as usize]);
                    let (ta, tb) = (a.tape.as_ref().unwrap(), b.tape.as_ref().unwrap());
                    if ta.0 == tb.0 && ta.1.len() == tb.1.len() && pairs.len() < 600 {
                        pairs.push((tvars[i], tvars[j]));
                    }
                }
            }
            if !pairs.is_empty() {
                let mut conds: Vec<u32> = vec![];
                for (x, y) in &pairs {
                    let ax = self.arena.vars[*x as usize].tape.as_ref().unwrap().1.clone();
                    let ay = self.arena.vars[*y as usize].tape.as_ref().unwrap().1.clone();
                    for k in 0..ax.len() {
                        conds.push(ax[k]);
                        conds.push(ay[k]);
                    }
                }
                for n in &conds {
                    em.visit_term(*n);
                }
                if !em.has_nonfinite {
                    body = em.preamble();
                    for (c, v) in pcs.iter().chain(extra.iter()) {
                        let line = match (&self.arena.conds[*c as usize], *v) {
                            (CNode::Lt(a, b), true) | (CNode::Le(a, b), true) => format!("(assert (<= (+ {} {}) {}))\n", em.nref_pub(*a), d, em.nref_pub(*b)),
                            (CNode::Lt(a, b), false) | (CNode::Le(a, b), false) => format!("(assert (<= (+ {} {}) {}))\n", em.nref_pub(*b), d, em.nref_pub(*a)),
                            (_, true) => format!("(assert {})\n", em.cond_str(*c)),
                            (_, false) => format!("(assert (not {}))\n", em.cond_str(*c)),
                        };
                        body.push_str(&line);
                    }
                    for (x, y) in &pairs {
                        let ax = self.arena.vars[*x as usize].tape.as_ref().unwrap().1.clone();
                        let ay = self.arena.vars[*y as usize].tape.as_ref().unwrap().1.clone();
                        let mut eqs = String::new();
                        for k in 0..ax.len() {
                            eqs.push_str(&format!(" (= {} {})", em.nref_pub(ax[k]), em.nref_pub(ay[k])));
                        }
                        body.push_str(&format!("(assert (=> (and true{}) (= v{} v{})))\n", eqs, x, y));
                    }
                }
            }
            let _ = em2;
        }
        if diversify {
            // generic (non-degenerate) tape functions: value_k = B + s * r_k with pseudo-random r_k,
            // offset B and scale s >= 1e-4 chosen by the solver
            body.push_str("(declare-const divB Real)\n(declare-const divS Real)\n(assert (>= divS (/ 1.0 10000.0)))\n");
            let mut h: u64 = 0x243F6A8885A308D3;
            for &v in em.used_vars.iter() {
                if self.arena.vars[v as usize].tape.is_some() {
                    h ^= h << 13;
                    h ^= h >> 7;
                    h ^= h << 17;
                    let r = ((h >> 11) as f64 / (1u64 << 53) as f64) * 2.0 - 1.0;
                    let r = (r * 1024.0).round() / 1024.0;
                    body.push_str(&format!("(assert (= v{} (+ divB (* divS {}))))\n", v, real_lit(r)));
                }
            }
        }
        let names: Vec<String> = em.used_vars.iter().map(|v| format!("v{}", v)).collect();
        let nl = em.nonlinear;
        let to = self.cfg.query_timeout_s;
        let (mut v, mut m) = self.solver.check(&body, nl, to.min(3.0), &names);
        if v == Verdict::Unknown {
            let (v2, m2) = self.solver2.check(&body, nl, to, &names);
            v = v2;
            m = m2;
        }
        let mut out = HashMap::new();
        for (k, val) in m {
            if let Some(idx) = k.strip_prefix('v').and_then(|s| s.parse::<usize>().ok()) {
                out.insert(self.arena.vars[idx].name.clone(), val);
            }
        }
        (v, out)
    }

    /// proof attempt against the linear part of the path condition only (dropping conjuncts is sound
    /// for unsat verdicts; any other verdict is inconclusive)
    fn refuted_by_linear_part(&mut self, extra: &[(u32, bool)]) -> bool {
        if self.pc.iter().all(|(c, _)| self.lin_cache.get(c) == Some(&true)) && !self.pc.is_empty() {
            return false; // nothing would be dropped: the full query decides
        }
        let (body, nl, nonfinite, _vars) = self.query_text(extra, false, true);
        if nonfinite {
            return false;
        }
        let (v, _) = self.solver.check(&body, nl, 2.0, &[]);
        if v == Verdict::Unsat {
            self.lin_stage_hits += 1;
        }
        v == Verdict::Unsat
    }

    fn check(&mut self, extra: &[(u32, bool)], full: bool, model: bool) -> (Verdict, HashMap<String, f64>, usize, bool) {
        let to = self.cfg.query_timeout_s;
        self.check_t(extra, full, model, to)
    }

    fn check_t(&mut self, extra: &[(u32, bool)], full: bool, model: bool, to: f64) -> (Verdict, HashMap<String, f64>, usize, bool) {
        if !full && !model && self.refuted_by_linear_part(extra) {
            return (Verdict::Unsat, HashMap::new(), 0, false);
        }
        let (body, nl, nonfinite, vars) = self.query_text(extra, full, false);
        if let Some(tag) = self.dump_next.take() {
            static N: std::sync::atomic::AtomicUsize = std::sync::atomic::AtomicUsize::new(0);
            let k = N.fetch_add(1, std::sync::atomic::Ordering::SeqCst);
            let _ = std::fs::write(format!("/tmp/symx-ob-{}-{}.smt2", tag.replace('/', "_"), k), format!("{}(check-sat)\n", body));
        }
        if nonfinite {
            self.notes.push("query mentions a non-finite constant: inconclusive".into());
            return (Verdict::Unknown, HashMap::new(), body.len(), nl);
        }
        let names: Vec<String> = if model { vars.iter().map(|v| format!("v{}", v)).collect() } else { vec![] };
        let (mut v, mut m) = self.solver.check(&body, nl, to.min(3.0), &names);
        if v == Verdict::Unknown {
            // portfolio: the other z3 generation often decides what the first one does not
            let (v2, m2) = self.solver2.check(&body, nl, to, &names);
            if v2 != Verdict::Unknown {
                self.fallback_used += 1;
                v = v2;
                m = m2;
            }
        }
        let mut out = HashMap::new();
        for (k, val) in m {
            if let Some(idx) = k.strip_prefix('v').and_then(|s| s.parse::<usize>().ok()) {
                out.insert(self.arena.vars[idx].name.clone(), val);
            }
        }
        (v, out, body.len(), nl)
    }

    fn tapes_from_model(&self, model: &HashMap<String, f64>) -> Vec<TapeSample> {
        let env = |v: u32| -> f64 {
            let vi = &self.arena.vars[v as usize];
            if let Some(x) = model.get(&vi.name) {
                *x
            } else {
                default_value(vi.lo, vi.hi)
            }
        };
        let mut cache = HashMap::new();
        let mut out = vec![];
        for vi in &self.arena.vars {
            if let Some((fname, args)) = &vi.tape {
                let a: Vec<f64> = args.iter().map(|&n| self.arena.eval(n, &env, &mut cache)).collect();
                let value = model.get(&vi.name).cloned().unwrap_or_else(|| default_value(vi.lo, vi.hi));
                out.push(TapeSample { fname: fname.clone(), args: a, value });
            }
        }
        out
    }
}

pub fn default_value(lo: Option<f64>, hi: Option<f64>) -> f64 {
    match (lo, hi) {
        (Some(l), Some(h)) => 0.5 * (l + h),
        (Some(l), None) => l + 1.0,
        (None, Some(h)) => h - 1.0,
        (None, None) => 0.0,
    }
}

/// Branch on a condition over symbolic terms.
pub fn decide(c: u32) -> bool {
    with_st(|st| {
        if c == C_TRUE {
            return true;
        }
        if c == C_FALSE {
            return false;
        }
        // a loop whose conditions repeat identically is answered from the memo without new decisions: bound it
        // (this happens on branches whose feasibility the solver could not decide)
        st.memo_hits += 1;
        if st.path_t0.elapsed().as_secs_f64() > 3.0 * st.cfg.wall_budget_s {
            // a single path may not outlive the harness's wall budget (every decision can cost a solver timeout)
            std::panic::panic_any(CutPath(format!("path exceeded three times the harness wall budget of {} s", st.cfg.wall_budget_s)));
        }
        if st.memo_hits > 200_000 || st.arena.nodes.len() > 4_000_000 {
            std::panic::panic_any(CutPath("loop without new decisions (memoised conditions) or term arena too large".into()));
        }
        if let Some(&v) = st.memo.get(&c) {
            return v;
        }
        let nc = st.arena.not(c);
        if let Some(&v) = st.memo.get(&nc) {
            return !v;
        }
        let pos = st.decisions.len();
        let v = if pos < st.tape.len() {
            st.tape[pos]
        } else {
            if pos >= st.cfg.max_decisions {
                std::panic::panic_any(CutPath(format!("decision cap {} reached", st.cfg.max_decisions)));
            }
            let ft = st.cfg.feas_timeout_s;
            let (vt, _, _, _) = st.check_t(&[(c, true)], false, false, ft);
            match vt {
                Verdict::Unsat => {
                    st.n_forced += 1;
                    false
                }
                _ => {
                    if vt == Verdict::Unknown {
                        st.n_unknown_feas += 1;
                    }
                    let (vf, _, _, _) = st.check_t(&[(c, false)], false, false, ft);
                    match vf {
                        Verdict::Unsat => {
                            if vt == Verdict::Unknown {
                                // true-branch feasibility unknown, false infeasible: take true
                            }
                            st.n_forced += 1;
                            true
                        }
                        _ => {
                            if vf == Verdict::Unknown {
                                st.n_unknown_feas += 1;
                            }
                            let mut alt = st.decisions.clone();
                            alt.push(false);
                            st.forks.push(alt);
                            true
                        }
                    }
                }
            }
        };
        st.decisions.push(v);
        st.pc.push((c, v));
        st.memo.insert(c, v);
        st.log.push((c, v));
        v
    })
}

/// `eqz` is the condition "denominator == 0".  Returns true if the denominator can be non-zero, in
/// which case "denominator != 0" is added to the path condition without forking; false if it is forced to zero.
pub fn assume_nonzero(eqz: u32) -> bool {
    with_st(|st| {
        if eqz == C_FALSE {
            return true;
        }
        if eqz == C_TRUE {
            return false;
        }
        if let Some(&v) = st.memo.get(&eqz) {
            return !v;
        }
        let ft = st.cfg.feas_timeout_s;
        let (v, _, _, _) = st.check_t(&[(eqz, false)], false, false, ft);
        if v == Verdict::Unsat {
            st.memo.insert(eqz, true);
            return false;
        }
        st.pc.push((eqz, false));
        st.memo.insert(eqz, false);
        st.assumed_nonzero += 1;
        true
    })
}

pub fn set_rounding(b: bool) {
    with_st(|st| st.rounding = b)
}

/// add a condition that is satisfiable by construction (no feasibility query)
pub fn assume_unchecked(c: u32) {
    with_st(|st| {
        if c == C_TRUE || st.memo.get(&c) == Some(&true) {
            return;
        }
        st.pc.push((c, true));
        st.memo.insert(c, true);
    })
}

pub fn set_fork_div_zero(b: bool) {
    with_st(|st| st.fork_div_zero = b)
}

/// Add an assumption to the current path (harness-side precondition).
pub fn assume(c: u32) {
    let feasible = with_st(|st| {
        if c == C_TRUE {
            return true;
        }
        if c == C_FALSE {
            return false;
        }
        if st.memo.get(&c) == Some(&true) {
            return true;
        }
        let (v, _, _, _) = st.check(&[(c, true)], false, false);
        if v == Verdict::Unsat {
            return false;
        }
        st.pc.push((c, true));
        st.memo.insert(c, true);
        true
    });
    if !feasible {
        std::panic::panic_any(InfeasiblePath);
    }
}

/// Discharge an obligation on the current path.  `strong_neg` (optional) is a
/// stronger form of the negation used to obtain a counterexample with margin.
pub fn prove(name: &str, c: u32, strong_neg: Option<u32>) {
    with_st(|st| {
        let t0 = st.solver.seconds + st.solver2.seconds;
        if c == C_TRUE || st.proved.contains(&c) || st.memo.get(&c) == Some(&true) {
            st.obligations.push(ObRecord {
                name: name.to_string(),
                status: ObStatus::Discharged,
                model: HashMap::new(),
                tapes: vec![],
                smt_bytes: 0,
                nonlinear: false,
                solver_s: 0.0,
                trivial: true,
                alt_models: vec![],
            });
            return;
        }
        if let Ok(pat) = std::env::var("SYMX_DUMP_OB") {
            if name.contains(&pat) {
                st.dump_next = Some(name.to_string());
            }
        }
        let (v, _, bytes, nl) = if c == C_FALSE { (Verdict::Sat, HashMap::new(), 0, false) } else { st.check(&[(c, false)], false, false) };
        let mut rec = ObRecord {
            name: name.to_string(),
            status: ObStatus::Undecided,
            model: HashMap::new(),
            tapes: vec![],
            smt_bytes: bytes,
            nonlinear: nl,
            solver_s: 0.0,
            trivial: false,
            alt_models: vec![],
        };
        if std::env::var("SYMX_PATHLOG").is_ok() {
            st.notes.push(format!("ob {} := {}  -> {:?}", name, st.arena.cshow(c, 6), v));
        }
        match v {
            Verdict::Unsat => {
                rec.status = ObStatus::Discharged;
                st.proved.insert(c);
            }
            Verdict::Unknown => rec.status = ObStatus::Undecided,
            Verdict::Sat => {
                rec.status = ObStatus::Candidate;
                // obtain a complete model: prefer the strong negation (margin), full path condition
                let mut got = false;
                if let Some(sn) = strong_neg {
                    if sn != C_FALSE {
                        let (v2, m2, _, _) = st.check(&[(sn, true)], true, true);
                        if v2 == Verdict::Sat {
                            rec.model = m2;
                            got = true;
                        }
                    }
                }
                // is the counterexample an artefact of a tape that is not a function?  re-check the full path
                // with functional-consistency constraints (margin 0)
                if !got {
                    let (vf, mf) = st.check_robust(&[(c, false)], 0.0, false);
                    if vf == Verdict::Unsat {
                        rec.status = ObStatus::Discharged;
                        st.proved.insert(c);
                        rec.solver_s = st.solver.seconds + st.solver2.seconds - t0;
                        st.obligations.push(rec);
                        return;
                    }
                    if vf == Verdict::Sat {
                        rec.model = mf;
                    }
                }
                if !got {
                    for (delta, div) in [(1e-6, true), (1e-9, true), (1e-6, false), (1e-9, false)] {
                        let (vr, mr) = st.check_robust(&[(c, false)], delta, div);
                        if vr == Verdict::Sat {
                            rec.model = mr;
                            got = true;
                            break;
                        }
                    }
                }
                if !got && rec.model.is_empty() {
                    let (v3, m3, _, _) = st.check(&[(c, false)], true, true);
                    if v3 == Verdict::Sat {
                        rec.model = m3;
                    } else {
                        let (_, m4, _, _) = st.check(&[(c, false)], false, true);
                        rec.model = m4;
                    }
                }
                rec.tapes = st.tapes_from_model(&rec.model);
                // anchored alternative models (first candidates of a path only)
                if st.alt_budget > 0 {
                    st.alt_budget -= 1;
                    let boxed: Vec<(u32, f64, f64)> = st
                        .arena
                        .vars
                        .iter()
                        .enumerate()
                        .filter(|(_, v)| v.tape.is_none() && v.lo.is_some() && v.hi.is_some())
                        .map(|(i, v)| (i as u32, v.lo.unwrap(), v.hi.unwrap()))
                        .collect();
                    let mut h: u64 = 0xD1B54A32D192ED03 ^ (st.obligations.len() as u64);
                    for k in 0..4u64 {
                        let mut extra: Vec<(u32, bool)> = vec![(c, false)];
                        for (vi, lo, hi) in &boxed {
                            h = h.wrapping_mul(6364136223846793005).wrapping_add(1442695040888963407 + k);
                            let u = (h >> 11) as f64 / (1u64 << 53) as f64;
                            // log-uniform anchor when the box spans decades on one side of zero, uniform otherwise
                            let anchor = if *lo > 0.0 && hi / lo > 100.0 {
                                lo * (hi / lo).powf(u)
                            } else if *hi < 0.0 && lo / hi > 100.0 {
                                hi * (lo / hi).powf(u)
                            } else {
                                lo + (hi - lo) * u
                            };
                            let w = if (*lo > 0.0 || *hi < 0.0) && (hi / lo).abs().max((lo / hi).abs()) > 100.0 { anchor.abs() * 0.5 } else { (hi - lo) * 0.15 };
                            let name = st.arena.vars[*vi as usize].name.clone();
                            let vn = st.arena.var(&name, Some(*lo), Some(*hi));
                            let a = st.arena.konst(anchor - w);
                            let b = st.arena.konst(anchor + w);
                            extra.push((st.arena.le(a, vn), true));
                            extra.push((st.arena.le(vn, b), true));
                        }
                        let ft = st.cfg.feas_timeout_s;
                        let (va, ma, _, _) = st.check_t(&extra, true, true, ft);
                        if va == Verdict::Sat && !ma.is_empty() {
                            let tp = st.tapes_from_model(&ma);
                            rec.alt_models.push((ma, tp));
                        }
                    }
                }
            }
        }
        rec.solver_s = st.solver.seconds + st.solver2.seconds - t0;
        st.obligations.push(rec);
    })
}

/// Does the path condition entail `c`?  (unknown counts as "no")
pub fn entails(c: u32) -> bool {
    with_st(|st| {
        if c == C_TRUE {
            return true;
        }
        if c == C_FALSE {
            return false;
        }
        if let Some(&v) = st.memo.get(&c) {
            return v;
        }
        let (v, _, _, _) = st.check(&[(c, false)], false, false);
        v == Verdict::Unsat
    })
}

/// Reachability witness: the current path (feasible by construction) reached this point.
pub fn reach(name: &str) {
    with_st(|st| st.reached.push(name.to_string()))
}

/// Negative control: `false` must NOT be provable here (the path condition is satisfiable).
pub fn control(name: &str) {
    with_st(|st| {
        let (v, _, _, _) = st.check(&[], true, false);
        if v == Verdict::Sat {
            st.controls_ok += 1;
        } else {
            st.controls_bad.push(format!("{}:{:?}", name, v));
        }
    })
}

pub fn note(s: &str) {
    if in_exploration() {
        with_st(|st| st.notes.push(s.to_string()))
    }
}

fn silence_panics() {
    use std::sync::Once;
    static ONCE: Once = Once::new();
    ONCE.call_once(|| {
        std::panic::set_hook(Box::new(|_| {}));
    });
}

fn panic_message(p: &Box<dyn std::any::Any + Send>) -> String {
    if let Some(s) = p.downcast_ref::<&str>() {
        s.to_string()
    } else if let Some(s) = p.downcast_ref::<String>() {
        s.clone()
    } else {
        "non-string panic".to_string()
    }
}

/// Execute one path with the given decision tape.
pub fn run_path(cfg: &Cfg, tape: Vec<bool>, body: &(dyn Fn() + Sync), want_pc_model: bool) -> PathResult {
    silence_panics();
    let (solver, solver2) = SOLVER_CACHE.with(|c| c.borrow_mut().take()).unwrap_or_else(|| {
        if std::env::var("SYMX_SOLVER").map_or(false, |s| s == "z3new") {
            (Solver::new(SolverKind::Z3New), Solver::new(SolverKind::Z3))
        } else {
            (Solver::new(SolverKind::Z3), Solver::new(SolverKind::Z3New))
        }
    });
    let (q0, s0, e0, t0) = (solver.queries + solver2.queries, solver.seconds + solver2.seconds, solver.errors, solver.timeouts + solver2.timeouts);
    let st = PathState {
        arena: Arena::new(),
        pc: vec![],
        memo: HashMap::new(),
        tape,
        decisions: vec![],
        forks: vec![],
        obligations: vec![],
        reached: vec![],
        controls_ok: 0,
        controls_bad: vec![],
        n_forced: 0,
        n_unknown_feas: 0,
        notes: vec![],
        cfg: cfg.clone(),
        solver,
        solver2,
        fallback_used: 0,
        lin_cache: HashMap::new(),
        lin_stage_hits: 0,
        proved: std::collections::HashSet::new(),
        dump_next: None,
        memo_hits: 0,
        fork_div_zero: true,
        assumed_nonzero: 0,
        log: vec![],
        want_pc_model,
        pc_model: None,
        abstract_sqrt: false,
        rounding: false,
        rounded_ops: 0,
        alt_budget: 2,
        path_t0: std::time::Instant::now(),
        fresh_counter: 0,
    };
    ST.with(|s| *s.borrow_mut() = Some(st));
    let r = catch_unwind(AssertUnwindSafe(|| body()));
    let mut st = ST.with(|s| s.borrow_mut().take()).unwrap();
    let mut res = PathResult::default();
    match r {
        Ok(()) => {}
        Err(p) => {
            if let Some(c) = p.downcast_ref::<CutPath>() {
                res.cut = Some(c.0.clone());
            } else if p.downcast_ref::<InfeasiblePath>().is_some() {
                res.infeasible = true;
            } else {
                res.panic_msg = Some(panic_message(&p));
                // a library panic on a feasible path: get a model of the path condition for replay
                let (v, m, _, _) = st.check(&[], true, true);
                if v == Verdict::Sat {
                    let tapes = st.tapes_from_model(&m);
                    res.panic_model = Some((m, tapes));
                }
            }
        }
    }
    if st.want_pc_model && res.cut.is_none() && !res.infeasible {
        let (v, m, _, _) = st.check(&[], true, true);
        if v == Verdict::Sat {
            let tapes = st.tapes_from_model(&m);
            st.pc_model = Some((m, tapes));
        }
    }
    if std::env::var("SYMX_PATHLOG").is_ok() {
        let mut out = format!("--- path {} cut={:?} infeasible={} panic={:?}\n", short_tape(&st.decisions), res.cut, res.infeasible, res.panic_msg);
        for (c, v) in &st.log {
            out.push_str(&format!("   [{}] {}\n", if *v { "T" } else { "F" }, st.arena.cshow(*c, 3)));
        }
        for o in &st.obligations {
            out.push_str(&format!("   ob {} {:?}\n", o.name, o.status));
        }
        for n in &st.notes {
            out.push_str(&format!("   note {}\n", n));
        }
        eprintln!("{}", out);
    }
    res.n_decisions = st.decisions.len();
    res.decisions = st.decisions;
    res.forks = st.forks;
    res.obligations = st.obligations;
    res.reached = st.reached;
    res.controls_ok = st.controls_ok;
    res.controls_bad = st.controls_bad;
    res.n_forced = st.n_forced;
    res.n_unknown_feas = st.n_unknown_feas;
    res.notes = st.notes;
    res.nodes = st.arena.nodes.len();
    res.pc_model = st.pc_model;
    res.n_queries = st.solver.queries + st.solver2.queries - q0;
    res.solver_s = st.solver.seconds + st.solver2.seconds - s0;
    res.solver_errors = st.solver.errors - e0;
    res.solver_timeouts = st.solver.timeouts + st.solver2.timeouts - t0;
    res.last_error = st.solver.last_error.clone();
    res.fallback_used = st.fallback_used;
    SOLVER_CACHE.with(|c| *c.borrow_mut() = Some((st.solver, st.solver2)));
    res
}

// ---------------------------------------------------------------------
// native replay context (f64 side of the `Sc` trait)

#[derive(Default, Clone, Debug)]
pub struct Replay {
    pub inputs: HashMap<String, f64>,
    pub tapes: Vec<TapeSample>,
    pub tape_next: HashMap<String, usize>,
    pub failures: Vec<String>,
    pub checked: usize,
    pub diverged: bool,
    pub assume_failed: bool,
    pub notes: Vec<String>,
}

thread_local! {
    pub static RP: RefCell<Option<Replay>> = RefCell::new(None);
}

pub struct AssumeFailed;

pub fn rp_input(name: &str, lo: f64, hi: f64) -> f64 {
    let v = RP.with(|r| {
        let b = r.borrow();
        let rp = b.as_ref().expect("native scalar harness used outside of a replay");
        match rp.inputs.get(name) {
            Some(v) => *v,
            None => default_value(Some(lo), Some(hi)),
        }
    });
    // (perturbed replays: a value outside the declared box is outside the claim)
    if !(v >= lo && v <= hi) && v.is_finite() {
        RP.with(|r| {
            if let Some(rp) = r.borrow_mut().as_mut() {
                rp.assume_failed = true;
            }
        });
    }
    v
}

pub fn rp_tape(fname: &str, args: &[f64], lo: f64, hi: f64) -> f64 {
    RP.with(|r| {
        let mut b = r.borrow_mut();
        let rp = b.as_mut().expect("native scalar harness used outside of a replay");
        // exact match on recorded abscissae first
        for t in &rp.tapes {
            if t.fname == fname && t.args.len() == args.len() && t.args.iter().zip(args).all(|(a, b)| a == b) {
                return t.value;
            }
        }
        // near match (rounding of the native run vs exact model arithmetic)
        let mut best: Option<(f64, f64)> = None;
        for t in &rp.tapes {
            if t.fname == fname && t.args.len() == args.len() {
                let d = t.args.iter().zip(args).map(|(a, b)| (a - b).abs() / (1.0 + a.abs().max(b.abs()))).fold(0.0, f64::max);
                if best.map_or(true, |(bd, _)| d < bd) {
                    best = Some((d, t.value));
                }
            }
        }
        if let Some((d, v)) = best {
            if d <= 1e-9 {
                return v;
            }
        }
        // one-dimensional: continuous piecewise-linear interpolation through the samples
        if args.len() == 1 {
            let mut pts: Vec<(f64, f64)> = rp.tapes.iter().filter(|t| t.fname == fname && t.args.len() == 1).map(|t| (t.args[0], t.value)).collect();
            pts.sort_by(|a, b| a.0.partial_cmp(&b.0).unwrap_or(std::cmp::Ordering::Equal));
            if pts.len() >= 2 {
                let x = args[0];
                if x <= pts[0].0 {
                    return pts[0].1;
                }
                if x >= pts[pts.len() - 1].0 {
                    return pts[pts.len() - 1].1;
                }
                for w in pts.windows(2) {
                    if x >= w[0].0 && x <= w[1].0 {
                        let t = (x - w[0].0) / (w[1].0 - w[0].0);
                        return w[0].1 + t * (w[1].1 - w[0].1);
                    }
                }
            }
        }
        rp.diverged = true;
        let mut v = best.map(|b| b.1).unwrap_or_else(|| default_value(Some(lo), Some(hi)));
        if v < lo {
            v = lo
        }
        if v > hi {
            v = hi
        }
        v
    })
}

pub fn rp_prove(name: &str, ok: bool) {
    RP.with(|r| {
        let mut b = r.borrow_mut();
        let rp = b.as_mut().expect("native scalar harness used outside of a replay");
        rp.checked += 1;
        if !ok {
            rp.failures.push(name.to_string());
        }
    })
}

pub fn rp_assume(ok: bool) {
    if !ok {
        RP.with(|r| {
            if let Some(rp) = r.borrow_mut().as_mut() {
                rp.assume_failed = true;
            }
        });
        std::panic::panic_any(AssumeFailed);
    }
}

#[derive(Clone, Debug, Default)]
pub struct ReplayOutcome {
    pub failures: Vec<String>,
    pub checked: usize,
    pub panic_msg: Option<String>,
    pub assume_failed: bool,
    pub diverged: bool,
}

pub fn run_native(inputs: &HashMap<String, f64>, tapes: &[TapeSample], body: &(dyn Fn() + Sync)) -> ReplayOutcome {
    silence_panics();
    let rp = Replay { inputs: inputs.clone(), tapes: tapes.to_vec(), ..Default::default() };
    RP.with(|r| *r.borrow_mut() = Some(rp));
    let r = catch_unwind(AssertUnwindSafe(|| body()));
    let rp = RP.with(|r| r.borrow_mut().take()).unwrap();
    let mut out = ReplayOutcome { failures: rp.failures, checked: rp.checked, panic_msg: None, assume_failed: rp.assume_failed, diverged: rp.diverged };
    if let Err(p) = r {
        if p.downcast_ref::<AssumeFailed>().is_none() {
            out.panic_msg = Some(panic_message(&p));
        }
    }
    out
}


/// Native confirmation of a solver model: the model itself first, then a few floating-point neighbours of it
/// (each input moved by a few units in the last place).  The solver's model lives in real arithmetic; a violation
/// that needs "two values one rounding apart" has an exact model that rounds onto a degenerate double.  The retry
/// only ever turns an UNCONFIRMED candidate into a confirmed one by exhibiting a failing native run.
pub fn confirm_native(model: &HashMap<String, f64>, tapes: &[TapeSample], body: &(dyn Fn() + Sync)) -> (ReplayOutcome, HashMap<String, f64>, bool) {
    let out = run_native(model, tapes, body);
    let ok = |o: &ReplayOutcome| !o.assume_failed && (!o.failures.is_empty() || o.panic_msg.is_some());
    if ok(&out) {
        return (out, model.clone(), true);
    }
    let mut keys: Vec<&String> = model.keys().collect();
    keys.sort();
    let mut h: u64 = 0x9E3779B97F4A7C15;
    let mut next = move || {
        h = h.wrapping_mul(6364136223846793005).wrapping_add(1442695040888963407);
        h >> 11
    };
    for round in 0..128u64 {
        let mut m2 = model.clone();
        for k in &keys {
            let v = model[*k];
            if v == 0.0 || !v.is_finite() {
                continue;
            }
            let w = if round < 32 {
                // a few units in the last place
                let j = (next() % 9) as i64 - 4;
                f64::from_bits((v.to_bits() as i64 + j) as u64)
            } else {
                // relative perturbations of growing size (2^-50 .. 2^-3): any native failure inside the declared
                // input boxes and harness assumptions is a violation, whatever path it takes
                let mag = 2f64.powi(-50 + ((round - 32) as i32 * 47) / 96);
                let u = (next() % (1 << 20)) as f64 / (1 << 20) as f64 * 2.0 - 1.0;
                v * (1.0 + mag * u)
            };
            if w.is_finite() {
                m2.insert((*k).clone(), w);
            }
        }
        let o2 = run_native(&m2, tapes, body);
        if ok(&o2) {
            return (o2, m2, true);
        }
    }
    (out, model.clone(), false)
}

// ---------------------------------------------------------------------
// exploration driver

#[derive(Clone, Debug, Default)]
pub struct Candidate {
    pub harness: String,
    pub obligation: String,
    pub inputs: HashMap<String, f64>,
    pub tapes: Vec<TapeSample>,
    pub decisions: Vec<bool>,
    pub confirmed: bool,
    pub native_failures: Vec<String>,
    pub native_panic: Option<String>,
    pub second_solver: Option<String>,
}

#[derive(Clone, Debug, Default)]
pub struct Report {
    pub harness: String,
    pub paths: usize,
    pub paths_cut: usize,
    pub paths_infeasible: usize,
    pub paths_unexplored: usize,
    pub paths_panicked: usize,
    pub decisions: usize,
    pub forced: usize,
    pub unknown_feasibility: usize,
    pub obligations: usize,
    pub discharged: usize,
    pub trivial: usize,
    pub nonlinear_obligations: usize,
    pub undecided: Vec<String>,
    pub candidates: Vec<Candidate>,
    pub reached: HashMap<String, usize>,
    pub controls_ok: usize,
    pub controls_bad: Vec<String>,
    pub queries: u64,
    pub solver_s: f64,
    pub solver_errors: u64,
    pub solver_timeouts: u64,
    pub last_error: String,
    pub native_validated: usize,
    pub native_mismatch: Vec<String>,
    pub wall_s: f64,
    pub max_nodes: usize,
    pub samples: Vec<String>,
    pub ob_names: HashMap<String, (usize, usize, usize)>,
    pub notes: Vec<String>,
    pub max_smt_bytes: usize,
    pub fallback_used: u64,
}

impl Report {
    pub fn confirmed(&self) -> Vec<&Candidate> {
        self.candidates.iter().filter(|c| c.confirmed).collect()
    }
}

struct Shared {
    queue: Mutex<(VecDeque<Vec<bool>>, usize)>, // (work, active workers)
    cv: Condvar,
    stop: AtomicBool,
    started: AtomicUsize,
}

/// Explore all feasible paths of `sym_body` (run on `Sym`) within the bounds of
/// `cfg`; every solver counterexample is replayed on `nat_body` (run on `f64`).
pub fn explore(cfg: &Cfg, sym_body: &(dyn Fn() + Sync), nat_body: &(dyn Fn() + Sync)) -> Report {
    let t_start = Instant::now();
    let shared = Arc::new(Shared {
        queue: Mutex::new((VecDeque::from(vec![vec![]]), 0)),
        cv: Condvar::new(),
        stop: AtomicBool::new(false),
        started: AtomicUsize::new(0),
    });
    let results: Mutex<Vec<PathResult>> = Mutex::new(vec![]);
    let nthreads = cfg.threads.max(1);
    std::thread::scope(|scope| {
        for _ in 0..nthreads {
            let shared = shared.clone();
            let results = &results;
            scope.spawn(move || loop {
                let tape = {
                    let mut g = shared.queue.lock().unwrap();
                    loop {
                        if shared.stop.load(Ordering::SeqCst) {
                            return;
                        }
                        if let Some(t) = g.0.pop_back() {
                            g.1 += 1;
                            break t;
                        }
                        if g.1 == 0 {
                            shared.cv.notify_all();
                            return;
                        }
                        g = shared.cv.wait(g).unwrap();
                    }
                };
                let idx = shared.started.fetch_add(1, Ordering::SeqCst);
                let want_model = idx < cfg.validate_paths;
                let res = run_path(cfg, tape, sym_body, want_model);
                {
                    let mut g = shared.queue.lock().unwrap();
                    for f in &res.forks {
                        g.0.push_back(f.clone());
                    }
                    g.1 -= 1;
                    let over_paths = shared.started.load(Ordering::SeqCst) >= cfg.max_paths;
                    let over_time = t_start.elapsed().as_secs_f64() > cfg.wall_budget_s;
                    if over_paths || over_time {
                        shared.stop.store(true, Ordering::SeqCst);
                    }
                    shared.cv.notify_all();
                }
                results.lock().unwrap().push(res);
            });
        }
    });
    let unexplored = shared.queue.lock().unwrap().0.len();
    let results = results.into_inner().unwrap();
    let mut rep = Report { harness: cfg.name.clone(), ..Default::default() };
    rep.paths_unexplored = unexplored;
    let mut second: Option<Solver> = None;
    let _ = &mut second;
    for r in &results {
        rep.queries += r.n_queries;
        rep.solver_s += r.solver_s;
        rep.solver_errors += r.solver_errors;
        rep.solver_timeouts += r.solver_timeouts;
        rep.fallback_used += r.fallback_used;
        if !r.last_error.is_empty() {
            rep.last_error = r.last_error.clone();
        }
        rep.max_nodes = rep.max_nodes.max(r.nodes);
        for n in &r.notes {
            if rep.notes.len() < 20 && !rep.notes.contains(n) {
                rep.notes.push(n.clone());
            }
        }
        if r.infeasible {
            rep.paths_infeasible += 1;
            continue;
        }
        rep.paths += 1;
        rep.decisions += r.n_decisions;
        rep.forced += r.n_forced;
        rep.unknown_feasibility += r.n_unknown_feas;
        if let Some(c) = &r.cut {
            rep.paths_cut += 1;
            if rep.notes.len() < 20 {
                rep.notes.push(format!("cut: {}", c));
            }
        }
        for n in &r.reached {
            *rep.reached.entry(n.clone()).or_insert(0) += 1;
        }
        rep.controls_ok += r.controls_ok;
        rep.controls_bad.extend(r.controls_bad.iter().cloned());
        for o in &r.obligations {
            rep.obligations += 1;
            rep.max_smt_bytes = rep.max_smt_bytes.max(o.smt_bytes);
            let e = rep.ob_names.entry(o.name.clone()).or_insert((0, 0, 0));
            e.0 += 1;
            if !o.trivial {
                e.2 += 1;
            }
            if o.trivial {
                rep.trivial += 1;
            }
            if o.nonlinear {
                rep.nonlinear_obligations += 1;
            }
            match o.status {
                ObStatus::Discharged => {
                    rep.discharged += 1;
                    e.1 += 1;
                    if rep.samples.len() < 6 && !o.trivial {
                        rep.samples.push(format!(
                            "obligation '{}' on path {:?}: unsat ({} bytes SMT, {}, {:.3}s)",
                            o.name,
                            short_tape(&r.decisions),
                            o.smt_bytes,
                            if o.nonlinear { "NRA" } else { "LRA" },
                            o.solver_s
                        ));
                    }
                }
                ObStatus::Undecided => rep.undecided.push(o.name.clone()),
                ObStatus::Candidate => {
                    let (mut out, mut used, mut confirmed) = confirm_native(&o.model, &o.tapes, nat_body);
                    let mut used_tapes = o.tapes.clone();
                    if !confirmed {
                        for (m, tp) in &o.alt_models {
                            let (o2, u2, c2) = confirm_native(m, tp, nat_body);
                            if c2 {
                                out = o2;
                                used = u2;
                                used_tapes = tp.clone();
                                confirmed = true;
                                break;
                            }
                        }
                    }
                    rep.candidates.push(Candidate {
                        harness: cfg.name.clone(),
                        obligation: o.name.clone(),
                        inputs: used,
                        tapes: used_tapes,
                        decisions: r.decisions.clone(),
                        confirmed,
                        native_failures: out.failures,
                        native_panic: out.panic_msg,
                        second_solver: None,
                    });
                }
            }
        }
        if let Some(msg) = &r.panic_msg {
            rep.paths_panicked += 1;
            // a panic inside library code on a feasible path is a violation candidate ("never panic")
            if let Some((m, tapes)) = &r.panic_model {
                let (out, used, confirmed) = confirm_native(m, tapes, nat_body);
                rep.candidates.push(Candidate {
                    harness: cfg.name.clone(),
                    obligation: format!("no-panic [{}]", msg),
                    inputs: used,
                    tapes: tapes.clone(),
                    decisions: r.decisions.clone(),
                    confirmed,
                    native_failures: out.failures,
                    native_panic: out.panic_msg,
                    second_solver: None,
                });
            } else {
                rep.undecided.push(format!("panic without model: {}", msg));
            }
        }
        if let Some((m, tapes)) = &r.pc_model {
            let out = run_native(m, tapes, nat_body);
            rep.native_validated += 1;
            if !out.assume_failed && (!out.failures.is_empty() || out.panic_msg.is_some()) {
                // symbolic run proved/considered this path, native run on a model of it fails an obligation
                let already = r.obligations.iter().any(|o| o.status != ObStatus::Discharged) || r.panic_msg.is_some();
                if !already {
                    rep.native_mismatch.push(format!("path {:?}: native failures {:?} panic {:?}", short_tape(&r.decisions), out.failures, out.panic_msg));
                }
            }
        }
    }
    rep.wall_s = t_start.elapsed().as_secs_f64();
    rep
}

pub fn short_tape(t: &[bool]) -> String {
    let s: String = t.iter().map(|b| if *b { 'T' } else { 'F' }).collect();
    if s.len() > 48 {
        format!("{}..({})", &s[..48], s.len())
    } else {
        s
    }
}
