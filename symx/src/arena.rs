//! Term arena for the symbolic scalar: hash-consed DAG of real-valued terms and
//! of boolean conditions over them.  One arena per thread (thread-local), reset
//! at the start of every symbolic path.

use std::collections::HashMap;
use std::rc::Rc;

#[derive(Clone, Copy, PartialEq, Eq, Hash, Debug)]
pub enum U {
    Neg,
    Abs,
    Sqrt,
    Signum,
    Floor,
    Ceil,
    Round,
    Trunc,
    // uninterpreted (with axioms emitted per use where noted in smt.rs)
    Sin,
    Cos,
    Tan,
    Asin,
    Acos,
    Atan,
    Sinh,
    Cosh,
    Tanh,
    Asinh,
    Acosh,
    Atanh,
    Exp,
    Exp2,
    Ln,
    Log2,
    Log10,
    Cbrt,
}

impl U {
    pub fn name(self) -> &'static str {
        match self {
            U::Neg => "neg",
            U::Abs => "abs",
            U::Sqrt => "sqrt",
            U::Signum => "signum",
            U::Floor => "floor",
            U::Ceil => "ceil",
            U::Round => "round",
            U::Trunc => "trunc",
            U::Sin => "sin",
            U::Cos => "cos",
            U::Tan => "tan",
            U::Asin => "asin",
            U::Acos => "acos",
            U::Atan => "atan",
            U::Sinh => "sinh",
            U::Cosh => "cosh",
            U::Tanh => "tanh",
            U::Asinh => "asinh",
            U::Acosh => "acosh",
            U::Atanh => "atanh",
            U::Exp => "exp",
            U::Exp2 => "exp2",
            U::Ln => "ln",
            U::Log2 => "log2",
            U::Log10 => "log10",
            U::Cbrt => "cbrt",
        }
    }
    pub fn eval(self, x: f64) -> f64 {
        match self {
            U::Neg => -x,
            U::Abs => x.abs(),
            U::Sqrt => x.sqrt(),
            U::Signum => x.signum(),
            U::Floor => x.floor(),
            U::Ceil => x.ceil(),
            U::Round => x.round(),
            U::Trunc => x.trunc(),
            U::Sin => x.sin(),
            U::Cos => x.cos(),
            U::Tan => x.tan(),
            U::Asin => x.asin(),
            U::Acos => x.acos(),
            U::Atan => x.atan(),
            U::Sinh => x.sinh(),
            U::Cosh => x.cosh(),
            U::Tanh => x.tanh(),
            U::Asinh => x.asinh(),
            U::Acosh => x.acosh(),
            U::Atanh => x.atanh(),
            U::Exp => x.exp(),
            U::Exp2 => x.exp2(),
            U::Ln => x.ln(),
            U::Log2 => x.log2(),
            U::Log10 => x.log10(),
            U::Cbrt => x.cbrt(),
        }
    }
}

#[derive(Clone, Copy, PartialEq, Eq, Hash, Debug)]
pub enum B {
    Add,
    Sub,
    Mul,
    Div,
    Min,
    Max,
    Powf,
    Atan2,
    Copysign,
    Rem,
    Hypot,
}

impl B {
    pub fn eval(self, a: f64, b: f64) -> f64 {
        match self {
            B::Add => a + b,
            B::Sub => a - b,
            B::Mul => a * b,
            B::Div => a / b,
            B::Min => a.min(b),
            B::Max => a.max(b),
            B::Powf => a.powf(b),
            B::Atan2 => a.atan2(b),
            B::Copysign => a.copysign(b),
            B::Rem => a % b,
            B::Hypot => a.hypot(b),
        }
    }
}

#[derive(Clone, PartialEq, Eq, Hash, Debug)]
pub enum Node {
    /// IEEE double constant (bit pattern)
    Const(u64),
    /// exact rational constant p/q (harness-side reference formulas)
    Rat(i64, i64),
    /// symbolic variable (index into `vars`)
    Var(u32),
    Un(U, u32),
    Bin(B, u32, u32),
    Powi(u32, i32),
    /// k-th real root of a non-negative term (x^(1/k)), k >= 2
    Root(u32, u32),
    Ite(u32, u32, u32),
}

#[derive(Clone, PartialEq, Eq, Hash, Debug)]
pub enum CNode {
    True,
    False,
    Lt(u32, u32),
    Le(u32, u32),
    Eq(u32, u32),
    Not(u32),
    And(u32, u32),
    Or(u32, u32),
    /// free boolean (sign bit of a term that is zero; index = term id)
    SignBit(u32),
}

#[derive(Clone, Debug)]
pub struct VarInfo {
    pub name: String,
    pub lo: Option<f64>,
    pub hi: Option<f64>,
    /// for tape variables: function name and argument node ids
    pub tape: Option<(String, Vec<u32>)>,
}

#[derive(Default)]
pub struct Arena {
    pub nodes: Vec<Node>,
    intern: HashMap<Node, u32>,
    pub conds: Vec<CNode>,
    cintern: HashMap<CNode, u32>,
    pub vars: Vec<VarInfo>,
    var_by_name: HashMap<String, u32>,
    tape_memo: HashMap<(String, Vec<u32>), u32>,
    /// per-node variable support (sorted var ids), memoised
    support: HashMap<u32, Rc<Vec<u32>>>,
    csupport: HashMap<u32, Rc<Vec<u32>>>,
    /// exact affine normal forms (filled lazily by smt::Emit)
    pub aff_cache: std::cell::RefCell<HashMap<u32, Rc<crate::smt::Aff>>>,
    /// representatives of opaque (non-affine) nodes, keyed by a hash of (operator, affine normal forms of the operands):
    /// syntactically different but affinely equal operands share one solver atom
    pub canon: std::cell::RefCell<HashMap<u64, Vec<u32>>>,
    iv_cache: HashMap<u32, (f64, f64)>,
}

pub const C_TRUE: u32 = 0;
pub const C_FALSE: u32 = 1;

impl Arena {
    pub fn new() -> Self {
        let mut a = Arena::default();
        a.conds.push(CNode::True);
        a.conds.push(CNode::False);
        a.cintern.insert(CNode::True, 0);
        a.cintern.insert(CNode::False, 1);
        a
    }

    pub fn mk(&mut self, n: Node) -> u32 {
        if let Some(&id) = self.intern.get(&n) {
            return id;
        }
        let id = self.nodes.len() as u32;
        self.nodes.push(n.clone());
        self.intern.insert(n, id);
        id
    }

    pub fn konst(&mut self, x: f64) -> u32 {
        // canonicalise NaN payloads
        let bits = if x.is_nan() { f64::NAN.to_bits() } else { x.to_bits() };
        self.mk(Node::Const(bits))
    }

    pub fn as_const(&self, id: u32) -> Option<f64> {
        match self.nodes[id as usize] {
            Node::Const(b) => Some(f64::from_bits(b)),
            _ => None,
        }
    }

    /// value of a ground (constant or rational) node as f64
    pub fn as_ground(&self, id: u32) -> Option<f64> {
        match self.nodes[id as usize] {
            Node::Const(b) => Some(f64::from_bits(b)),
            Node::Rat(p, q) => Some(p as f64 / q as f64),
            _ => None,
        }
    }

    pub fn var(&mut self, name: &str, lo: Option<f64>, hi: Option<f64>) -> u32 {
        if let Some(&v) = self.var_by_name.get(name) {
            return self.mk(Node::Var(v));
        }
        let v = self.vars.len() as u32;
        self.vars.push(VarInfo { name: name.to_string(), lo, hi, tape: None });
        self.var_by_name.insert(name.to_string(), v);
        self.mk(Node::Var(v))
    }

    /// memoised "tape" application: an arbitrary function `fname` applied to
    /// the (hash-consed) argument terms; the same arguments give the same value.
    pub fn tape(&mut self, fname: &str, args: &[u32], lo: Option<f64>, hi: Option<f64>) -> u32 {
        let key = (fname.to_string(), args.to_vec());
        if let Some(&id) = self.tape_memo.get(&key) {
            return id;
        }
        let k = self.tape_memo.len();
        let name = format!("{}!{}", fname, k);
        let v = self.vars.len() as u32;
        self.vars.push(VarInfo { name: name.clone(), lo, hi, tape: Some(key.clone()) });
        self.var_by_name.insert(name, v);
        let id = self.mk(Node::Var(v));
        self.tape_memo.insert(key, id);
        id
    }

    pub fn un(&mut self, op: U, a: u32) -> u32 {
        if let Some(x) = self.as_const(a) {
            return self.konst(op.eval(x));
        }
        match op {
            U::Neg => {
                if let Node::Un(U::Neg, inner) = self.nodes[a as usize] {
                    return inner;
                }
                if let Node::Rat(p, q) = self.nodes[a as usize] {
                    return self.mk(Node::Rat(-p, q));
                }
            }
            U::Abs => {
                match self.nodes[a as usize] {
                    Node::Un(U::Abs, _) | Node::Un(U::Sqrt, _) => return a,
                    Node::Un(U::Neg, inner) => return self.un(U::Abs, inner),
                    _ => {}
                }
            }
            U::Sqrt => {
                // sqrt(x*x) = |x|
                if let Node::Bin(B::Mul, x, y) = self.nodes[a as usize] {
                    if x == y {
                        return self.un(U::Abs, x);
                    }
                }
                if let Node::Powi(x, 2) = self.nodes[a as usize] {
                    return self.un(U::Abs, x);
                }
            }
            _ => {}
        }
        self.mk(Node::Un(op, a))
    }

    pub fn bin(&mut self, op: B, a: u32, b: u32) -> u32 {
        let ca = self.as_const(a);
        let cb = self.as_const(b);
        if let (Some(x), Some(y)) = (ca, cb) {
            return self.konst(op.eval(x, y));
        }
        // NaN constants propagate
        if ca.map_or(false, |x| x.is_nan()) || cb.map_or(false, |x| x.is_nan()) {
            return self.konst(f64::NAN);
        }
        // +-inf with a finite symbolic operand (sign-independent cases only)
        match op {
            B::Add | B::Sub => {
                if let Some(x) = ca {
                    if x.is_infinite() {
                        return self.konst(x);
                    }
                }
                if let Some(y) = cb {
                    if y.is_infinite() {
                        return self.konst(if op == B::Add { y } else { -y });
                    }
                }
            }
            B::Div => {
                if let Some(y) = cb {
                    if y.is_infinite() {
                        return self.konst(0.0);
                    }
                }
            }
            _ => {}
        }
        match op {
            B::Add => {
                if ca == Some(0.0) {
                    return b;
                }
                if cb == Some(0.0) {
                    return a;
                }
                let (x, y) = if a <= b { (a, b) } else { (b, a) };
                return self.mk(Node::Bin(B::Add, x, y));
            }
            B::Sub => {
                if cb == Some(0.0) {
                    return a;
                }
                if ca == Some(0.0) {
                    return self.un(U::Neg, b);
                }
                if a == b {
                    return self.konst(0.0);
                }
            }
            B::Mul => {
                if ca == Some(0.0) || cb == Some(0.0) {
                    return self.konst(0.0);
                }
                if ca == Some(1.0) {
                    return b;
                }
                if cb == Some(1.0) {
                    return a;
                }
                if ca == Some(-1.0) {
                    return self.un(U::Neg, b);
                }
                if cb == Some(-1.0) {
                    return self.un(U::Neg, a);
                }
                let (x, y) = if a <= b { (a, b) } else { (b, a) };
                return self.mk(Node::Bin(B::Mul, x, y));
            }
            B::Div => {
                if cb == Some(1.0) {
                    return a;
                }
                if ca == Some(0.0) {
                    return self.konst(0.0);
                }
            }
            B::Powf => {
                if let Some(e) = cb {
                    if e == e.trunc() && e.abs() <= 64.0 {
                        return self.powi(a, e as i32);
                    }
                    if e == 0.5 {
                        return self.un(U::Sqrt, a);
                    }
                    // x^(1/k) for small k
                    for k in 2u32..=12 {
                        if e == 1.0 / (k as f64) {
                            return self.mk(Node::Root(a, k));
                        }
                    }
                }
            }
            B::Hypot => {
                let aa = self.bin(B::Mul, a, a);
                let bb = self.bin(B::Mul, b, b);
                let s = self.bin(B::Add, aa, bb);
                return self.un(U::Sqrt, s);
            }
            B::Min | B::Max => {
                if a == b {
                    return a;
                }
                let (x, y) = if a <= b { (a, b) } else { (b, a) };
                return self.mk(Node::Bin(op, x, y));
            }
            _ => {}
        }
        self.mk(Node::Bin(op, a, b))
    }

    pub fn powi(&mut self, a: u32, n: i32) -> u32 {
        if let Some(x) = self.as_const(a) {
            return self.konst(x.powi(n));
        }
        match n {
            0 => self.konst(1.0),
            1 => a,
            2 => self.bin(B::Mul, a, a),
            _ if n < 0 => {
                let p = self.powi(a, -n);
                let one = self.konst(1.0);
                self.bin(B::Div, one, p)
            }
            _ => self.mk(Node::Powi(a, n)),
        }
    }

    pub fn ite(&mut self, c: u32, a: u32, b: u32) -> u32 {
        if c == C_TRUE {
            return a;
        }
        if c == C_FALSE {
            return b;
        }
        if a == b {
            return a;
        }
        self.mk(Node::Ite(c, a, b))
    }

    // ---- conditions -------------------------------------------------

    pub fn cmk(&mut self, c: CNode) -> u32 {
        if let Some(&id) = self.cintern.get(&c) {
            return id;
        }
        let id = self.conds.len() as u32;
        self.conds.push(c.clone());
        self.cintern.insert(c, id);
        id
    }

    fn cbool(&self, b: bool) -> u32 {
        if b {
            C_TRUE
        } else {
            C_FALSE
        }
    }

    /// IEEE comparison when one side is a non-finite constant (symbolic values are finite)
    fn nonfinite_cmp(&self, a: u32, b: u32, strict: bool, equal: bool) -> Option<bool> {
        let (x, y) = (self.as_const(a), self.as_const(b));
        if x.map_or(false, |v| v.is_nan()) || y.map_or(false, |v| v.is_nan()) {
            return Some(false);
        }
        let _ = strict;
        if let Some(v) = x {
            if v.is_infinite() {
                // a = +-inf, b finite symbolic
                return Some(if equal { false } else { v < 0.0 });
            }
        }
        if let Some(v) = y {
            if v.is_infinite() {
                return Some(if equal { false } else { v > 0.0 });
            }
        }
        None
    }

    pub fn lt(&mut self, a: u32, b: u32) -> u32 {
        if let (Some(x), Some(y)) = (self.as_ground(a), self.as_ground(b)) {
            return self.cbool(x < y);
        }
        if let Some(r) = self.nonfinite_cmp(a, b, true, false) {
            return self.cbool(r);
        }
        if a == b {
            return C_FALSE;
        }
        self.cmk(CNode::Lt(a, b))
    }
    pub fn le(&mut self, a: u32, b: u32) -> u32 {
        if let (Some(x), Some(y)) = (self.as_ground(a), self.as_ground(b)) {
            return self.cbool(x <= y);
        }
        if let Some(r) = self.nonfinite_cmp(a, b, false, false) {
            return self.cbool(r);
        }
        if a == b {
            return C_TRUE;
        }
        self.cmk(CNode::Le(a, b))
    }
    pub fn eq(&mut self, a: u32, b: u32) -> u32 {
        if let (Some(x), Some(y)) = (self.as_ground(a), self.as_ground(b)) {
            return self.cbool(x == y);
        }
        if let Some(r) = self.nonfinite_cmp(a, b, false, true) {
            return self.cbool(r);
        }
        if a == b {
            return C_TRUE;
        }
        let (x, y) = if a <= b { (a, b) } else { (b, a) };
        self.cmk(CNode::Eq(x, y))
    }
    pub fn not(&mut self, c: u32) -> u32 {
        match self.conds[c as usize] {
            CNode::True => C_FALSE,
            CNode::False => C_TRUE,
            CNode::Not(i) => i,
            _ => self.cmk(CNode::Not(c)),
        }
    }
    pub fn and(&mut self, a: u32, b: u32) -> u32 {
        if a == C_FALSE || b == C_FALSE {
            return C_FALSE;
        }
        if a == C_TRUE {
            return b;
        }
        if b == C_TRUE {
            return a;
        }
        if a == b {
            return a;
        }
        self.cmk(CNode::And(a, b))
    }
    pub fn or(&mut self, a: u32, b: u32) -> u32 {
        if a == C_TRUE || b == C_TRUE {
            return C_TRUE;
        }
        if a == C_FALSE {
            return b;
        }
        if b == C_FALSE {
            return a;
        }
        if a == b {
            return a;
        }
        self.cmk(CNode::Or(a, b))
    }

    // ---- variable support ------------------------------------------

    fn merge(a: &[u32], b: &[u32]) -> Vec<u32> {
        let mut out = Vec::with_capacity(a.len() + b.len());
        let (mut i, mut j) = (0, 0);
        while i < a.len() && j < b.len() {
            if a[i] < b[j] {
                out.push(a[i]);
                i += 1;
            } else if a[i] > b[j] {
                out.push(b[j]);
                j += 1;
            } else {
                out.push(a[i]);
                i += 1;
                j += 1;
            }
        }
        out.extend_from_slice(&a[i..]);
        out.extend_from_slice(&b[j..]);
        out
    }

    /// sorted list of variable ids a term depends on.  SignBit pseudo-variables
    /// are numbered from 1<<30 upward.
    pub fn support(&mut self, id: u32) -> Rc<Vec<u32>> {
        if let Some(s) = self.support.get(&id) {
            return s.clone();
        }
        let s: Rc<Vec<u32>> = match self.nodes[id as usize].clone() {
            Node::Const(_) | Node::Rat(_, _) => Rc::new(vec![]),
            Node::Var(v) => Rc::new(vec![v]),
            Node::Un(_, a) | Node::Powi(a, _) | Node::Root(a, _) => self.support(a),
            Node::Bin(_, a, b) => {
                let sa = self.support(a);
                let sb = self.support(b);
                if sa.is_empty() {
                    sb
                } else if sb.is_empty() {
                    sa
                } else {
                    Rc::new(Self::merge(&sa, &sb))
                }
            }
            Node::Ite(c, a, b) => {
                let sc = self.csupport(c);
                let sa = self.support(a);
                let sb = self.support(b);
                Rc::new(Self::merge(&Self::merge(&sc, &sa), &sb))
            }
        };
        self.support.insert(id, s.clone());
        s
    }

    pub fn csupport(&mut self, c: u32) -> Rc<Vec<u32>> {
        if let Some(s) = self.csupport.get(&c) {
            return s.clone();
        }
        let s: Rc<Vec<u32>> = match self.conds[c as usize].clone() {
            CNode::True | CNode::False => Rc::new(vec![]),
            CNode::Lt(a, b) | CNode::Le(a, b) | CNode::Eq(a, b) => {
                let sa = self.support(a);
                let sb = self.support(b);
                Rc::new(Self::merge(&sa, &sb))
            }
            CNode::Not(i) => self.csupport(i),
            CNode::And(a, b) | CNode::Or(a, b) => {
                let sa = self.csupport(a);
                let sb = self.csupport(b);
                Rc::new(Self::merge(&sa, &sb))
            }
            CNode::SignBit(n) => {
                let sn = self.support(n);
                Rc::new(Self::merge(&sn, &[(1u32 << 30) + n]))
            }
        };
        self.csupport.insert(c, s.clone());
        s
    }

    /// short human-readable rendering (depth-limited) for debugging and evidence samples
    pub fn show(&self, id: u32, depth: usize) -> String {
        match &self.nodes[id as usize] {
            Node::Const(b) => format!("{}", f64::from_bits(*b)),
            Node::Rat(p, q) => format!("{}/{}", p, q),
            Node::Var(v) => self.vars[*v as usize].name.clone(),
            _ if depth == 0 => format!("#{}", id),
            Node::Un(op, a) => format!("{}({})", op.name(), self.show(*a, depth - 1)),
            Node::Bin(op, a, b) => {
                let o = match op {
                    B::Add => "+",
                    B::Sub => "-",
                    B::Mul => "*",
                    B::Div => "/",
                    B::Min => " min ",
                    B::Max => " max ",
                    B::Powf => "^",
                    B::Atan2 => " atan2 ",
                    B::Copysign => " copysign ",
                    B::Rem => "%",
                    B::Hypot => " hypot ",
                };
                format!("({}{}{})", self.show(*a, depth - 1), o, self.show(*b, depth - 1))
            }
            Node::Powi(a, n) => format!("{}^{}", self.show(*a, depth - 1), n),
            Node::Root(a, k) => format!("root{}({})", k, self.show(*a, depth - 1)),
            Node::Ite(c, a, b) => format!("ite({},{},{})", self.cshow(*c, depth - 1), self.show(*a, depth - 1), self.show(*b, depth - 1)),
        }
    }

    pub fn cshow(&self, c: u32, depth: usize) -> String {
        match &self.conds[c as usize] {
            CNode::True => "true".into(),
            CNode::False => "false".into(),
            CNode::Lt(a, b) => format!("{} < {}", self.show(*a, depth), self.show(*b, depth)),
            CNode::Le(a, b) => format!("{} <= {}", self.show(*a, depth), self.show(*b, depth)),
            CNode::Eq(a, b) => format!("{} == {}", self.show(*a, depth), self.show(*b, depth)),
            CNode::Not(i) => format!("!({})", self.cshow(*i, depth)),
            CNode::And(a, b) => format!("({}) && ({})", self.cshow(*a, depth), self.cshow(*b, depth)),
            CNode::Or(a, b) => format!("({}) || ({})", self.cshow(*a, depth), self.cshow(*b, depth)),
            CNode::SignBit(n) => format!("signbit({})", self.show(*n, depth)),
        }
    }


    /// outward-rounded interval enclosure of a term over the variables' boxes (coarse: no dependency tracking)
    pub fn interval(&mut self, id: u32) -> (f64, f64) {
        const INF: f64 = f64::INFINITY;
        fn widen(lo: f64, hi: f64) -> (f64, f64) {
            let w = |x: f64, up: bool| -> f64 {
                if !x.is_finite() || x == 0.0 {
                    return if x == 0.0 { if up { 5e-324 } else { -5e-324 } } else { x };
                }
                let e = x.abs() * 4.5e-16;
                if up { x + e } else { x - e }
            };
            (w(lo, false), w(hi, true))
        }
        let mut stack = vec![id];
        while let Some(&n) = stack.last() {
            if self.iv_cache.contains_key(&n) {
                stack.pop();
                continue;
            }
            let kids: Vec<u32> = match &self.nodes[n as usize] {
                Node::Un(_, a) | Node::Powi(a, _) | Node::Root(a, _) => vec![*a],
                Node::Bin(_, a, b) => vec![*a, *b],
                Node::Ite(_, a, b) => vec![*a, *b],
                _ => vec![],
            };
            let missing: Vec<u32> = kids.iter().cloned().filter(|k| !self.iv_cache.contains_key(k)).collect();
            if !missing.is_empty() {
                stack.extend(missing);
                continue;
            }
            let g = |k: &u32| self.iv_cache[k];
            let r: (f64, f64) = match &self.nodes[n as usize] {
                Node::Const(b) => {
                    let x = f64::from_bits(*b);
                    if x.is_nan() { (-INF, INF) } else { (x, x) }
                }
                Node::Rat(p, q) => widen(*p as f64 / *q as f64, *p as f64 / *q as f64),
                Node::Var(v) => {
                    let vi = &self.vars[*v as usize];
                    (vi.lo.unwrap_or(-INF), vi.hi.unwrap_or(INF))
                }
                Node::Un(U::Neg, a) => {
                    let (l, h) = g(a);
                    (-h, -l)
                }
                Node::Un(U::Abs, a) => {
                    let (l, h) = g(a);
                    if l >= 0.0 { (l, h) } else if h <= 0.0 { (-h, -l) } else { (0.0, (-l).max(h)) }
                }
                Node::Un(U::Sqrt, a) => {
                    let (l, h) = g(a);
                    if h.is_finite() && h >= 0.0 { widen(l.max(0.0).sqrt(), h.sqrt()) } else { (0.0, INF) }
                }
                Node::Bin(B::Add, a, b) => {
                    let ((l1, h1), (l2, h2)) = (g(a), g(b));
                    widen(l1 + l2, h1 + h2)
                }
                Node::Bin(B::Sub, a, b) => {
                    let ((l1, h1), (l2, h2)) = (g(a), g(b));
                    widen(l1 - h2, h1 - l2)
                }
                Node::Bin(B::Mul, a, b) => {
                    let ((l1, h1), (l2, h2)) = (g(a), g(b));
                    let c = [l1 * l2, l1 * h2, h1 * l2, h1 * h2];
                    if c.iter().any(|x| x.is_nan()) { (-INF, INF) } else { widen(c.iter().cloned().fold(INF, f64::min), c.iter().cloned().fold(-INF, f64::max)) }
                }
                Node::Bin(B::Div, a, b) => {
                    let ((l1, h1), (l2, h2)) = (g(a), g(b));
                    if l2 > 0.0 || h2 < 0.0 {
                        let c = [l1 / l2, l1 / h2, h1 / l2, h1 / h2];
                        if c.iter().any(|x| x.is_nan()) { (-INF, INF) } else { widen(c.iter().cloned().fold(INF, f64::min), c.iter().cloned().fold(-INF, f64::max)) }
                    } else {
                        (-INF, INF)
                    }
                }
                Node::Bin(B::Min, a, b) => {
                    let ((l1, h1), (l2, h2)) = (g(a), g(b));
                    (l1.min(l2), h1.min(h2))
                }
                Node::Bin(B::Max, a, b) => {
                    let ((l1, h1), (l2, h2)) = (g(a), g(b));
                    (l1.max(l2), h1.max(h2))
                }
                Node::Ite(_, a, b) => {
                    let ((l1, h1), (l2, h2)) = (g(a), g(b));
                    (l1.min(l2), h1.max(h2))
                }
                _ => (-INF, INF),
            };
            self.iv_cache.insert(n, r);
            stack.pop();
        }
        self.iv_cache[&id]
    }

    /// concrete evaluation of a term under an assignment of the variables
    /// (f64 arithmetic; used for diagnostics and sample printing only)
    pub fn eval(&self, id: u32, env: &dyn Fn(u32) -> f64, cache: &mut HashMap<u32, f64>) -> f64 {
        if let Some(&v) = cache.get(&id) {
            return v;
        }
        let v = match &self.nodes[id as usize] {
            Node::Const(b) => f64::from_bits(*b),
            Node::Rat(p, q) => *p as f64 / *q as f64,
            Node::Var(v) => env(*v),
            Node::Un(op, a) => op.eval(self.eval(*a, env, cache)),
            Node::Bin(op, a, b) => {
                let x = self.eval(*a, env, cache);
                let y = self.eval(*b, env, cache);
                op.eval(x, y)
            }
            Node::Powi(a, n) => self.eval(*a, env, cache).powi(*n),
            Node::Root(a, k) => self.eval(*a, env, cache).powf(1.0 / (*k as f64)),
            Node::Ite(c, a, b) => {
                if self.ceval(*c, env, cache) {
                    self.eval(*a, env, cache)
                } else {
                    self.eval(*b, env, cache)
                }
            }
        };
        cache.insert(id, v);
        v
    }

    pub fn ceval(&self, c: u32, env: &dyn Fn(u32) -> f64, cache: &mut HashMap<u32, f64>) -> bool {
        match &self.conds[c as usize] {
            CNode::True => true,
            CNode::False => false,
            CNode::Lt(a, b) => self.eval(*a, env, cache) < self.eval(*b, env, cache),
            CNode::Le(a, b) => self.eval(*a, env, cache) <= self.eval(*b, env, cache),
            CNode::Eq(a, b) => self.eval(*a, env, cache) == self.eval(*b, env, cache),
            CNode::Not(i) => !self.ceval(*i, env, cache),
            CNode::And(a, b) => self.ceval(*a, env, cache) && self.ceval(*b, env, cache),
            CNode::Or(a, b) => self.ceval(*a, env, cache) || self.ceval(*b, env, cache),
            CNode::SignBit(_) => false,
        }
    }
}
