//! C07 — bracketing root finders return a root inside the bracket and terminate.
use super::util::*;
use super::Tier;
use crate::ev::PropRun;
use crate::run_h;
use crate::sym::Sc;
use bacon_sci::roots::{bisection, brent, itp};
use std::cell::RefCell;

const FB: f64 = 10.0;

type Log<S> = RefCell<Vec<(S, S)>>;

fn tape_fn<'a, S: Sc>(log: &'a Log<S>) -> impl FnMut(S) -> S + 'a {
    tape_fn_budget(log, 400)
}

/// the function under test enforces an evaluation budget: a solve that does not terminate is reported
/// (as a violated obligation) instead of being cut silently
fn tape_fn_budget<'a, S: Sc>(log: &'a Log<S>, budget: usize) -> impl FnMut(S) -> S + 'a {
    move |x: S| {
        if log.borrow().len() >= budget {
            S::prove("terminates-within-the-evaluation-budget", S::b_const(false));
            std::panic::panic_any(crate::eng::CutPath(format!("evaluation budget {} exhausted", budget)));
        }
        let v = S::tape("f", &[x], -FB, FB);
        log.borrow_mut().push((x, v));
        v
    }
}

fn smin<S: Sc>(a: S, b: S) -> S {
    a.smin(b)
}
fn smax<S: Sc>(a: S, b: S) -> S {
    a.smax(b)
}

/// every abscissa handed to the function lies in the closed bracket
fn all_inside<S: Sc>(log: &Log<S>, a: S, b: S, name: &str) {
    let (lo, hi) = (smin(a, b), smax(a, b));
    let slack = S::lit(1e-12);
    for (x, _) in log.borrow().iter() {
        S::prove_m(name, S::b_and(S::b_le(lo - slack, *x), S::b_le(*x, hi + slack)), S::b_or(S::b_lt(*x, lo - S::lit(1e-6)), S::b_lt(hi + S::lit(1e-6), *x)));
    }
}

/// some recorded pair of abscissae with values of opposite (or zero) sign lies within `dist` of x on both sides
fn sign_change_near<S: Sc>(log: &Log<S>, x: S, dist: S) -> S::Bl {
    let l = log.borrow();
    let mut any = S::b_const(false);
    for i in 0..l.len() {
        for j in 0..l.len() {
            if i == j {
                continue;
            }
            let (p, fp) = l[i];
            let (q, fq) = l[j];
            let c = S::b_and(
                S::b_and(S::b_le(fp, S::lit(0.0)), S::b_le(S::lit(0.0), fq)),
                S::b_and(S::b_le((p - x).sabs(), dist), S::b_le((q - x).sabs(), dist)),
            );
            any = S::b_or(any, c);
        }
    }
    any
}

/// bisection: symbolic bracket (left < right), tolerance and function values; bracket width <= 2^k * tol
fn bisect<S: Sc>(k: i32, n_max: usize) {
    let a = S::input("a", -4.0, 4.0);
    let w = S::input("w", 1e-3, 4.0);
    let b = a + w;
    let tol = S::input("tol", 1e-4, 0.5);
    S::assume(S::b_le(w, tol * S::lit(2f64.powi(k))));
    let log: Log<S> = RefCell::new(vec![]);
    // end values of strictly opposite sign (exact zeros at the ends are outside the statement); the tape is
    // memoised on its argument, so these are the values the routine will see
    let (fa, fb) = (S::tape("f", &[a], -FB, FB), S::tape("f", &[b], -FB, FB));
    S::assume(S::b_or(S::b_and(S::b_lt(fa, S::lit(0.0)), S::b_lt(S::lit(0.0), fb)), S::b_and(S::b_lt(fb, S::lit(0.0)), S::b_lt(S::lit(0.0), fa))));
    let res = bisection((a, b), tape_fn_budget(&log, n_max + 3), tol, n_max);
    S::reach("bisection");
    all_inside(&log, a, b, "bisection/evaluates-only-inside-the-bracket");
    S::prove("bisection/evaluation-count-bounded", S::b_const(log.borrow().len() <= n_max + 2));
    match res {
        Ok(x) => {
            S::reach("bisection/ok");
            S::prove_m("bisection/result-inside-the-bracket", S::b_and(S::b_le(a, x), S::b_le(x, b)), S::b_or(S::b_lt(x, a - S::lit(1e-6)), S::b_lt(b + S::lit(1e-6), x)));
            let scale = smax(S::lit(1.0), x.sabs());
            let near = sign_change_near(&log, x, tol * scale * S::lit(1.0 + 1e-6));
            S::prove("bisection/sign-change-within-relative-tolerance-of-result", near);
        }
        Err(_) => {
            // with width <= 2^k tol and n_max >= k+2 the iteration has room to converge
            S::prove("bisection/converges-on-narrow-brackets", S::b_const(n_max < (k as usize) + 2));
        }
    }
}

/// same-sign end values give Err
fn bisect_same_sign<S: Sc>() {
    let a = S::input("a", -4.0, 4.0);
    let w = S::input("w", 1e-3, 4.0);
    let tol = S::input("tol", 1e-4, 0.5);
    let log: Log<S> = RefCell::new(vec![]);
    let (fa, fb) = (S::tape("f", &[a], -FB, FB), S::tape("f", &[a + w], -FB, FB));
    S::assume(S::b_or(S::b_and(S::b_lt(fa, S::lit(0.0)), S::b_lt(fb, S::lit(0.0))), S::b_and(S::b_lt(S::lit(0.0), fb), S::b_lt(S::lit(0.0), fa))));
    let res = bisection((a, a + w), tape_fn(&log), tol, 20);
    S::prove("bisection/same-sign-ends-give-err", S::b_const(res.is_err()));
}

/// Brent: bracket in either order, absolute tolerance
fn brent_h<S: Sc>(k: i32) {
    let a = S::input("a", -4.0, 4.0);
    let b = S::input("b", -4.0, 4.0);
    let tol = S::input("tol", 1e-3, 0.5);
    S::assume(S::b_le(S::lit(1e-3), (a - b).sabs()));
    S::assume(S::b_le((a - b).sabs(), tol * S::lit(2f64.powi(k))));
    let log: Log<S> = RefCell::new(vec![]);
    let (fa, fb) = (S::tape("f", &[a], -FB, FB), S::tape("f", &[b], -FB, FB));
    S::assume(S::b_or(S::b_and(S::b_lt(fa, S::lit(0.0)), S::b_lt(S::lit(0.0), fb)), S::b_and(S::b_lt(fb, S::lit(0.0)), S::b_lt(S::lit(0.0), fa))));
    // Brent on a bracket of width <= 2^k tol: generous budget (bisection alone would need k+1 evaluations)
    let res = brent((a, b), tape_fn_budget(&log, 12 + 8 * k as usize), tol);
    S::reach("brent");
    all_inside(&log, a, b, "brent/evaluates-only-inside-the-bracket");
    match res {
        Ok(x) => {
            S::reach("brent/ok");
            let (lo, hi) = (smin(a, b), smax(a, b));
            S::prove("brent/result-inside-the-bracket", S::b_and(S::b_le(lo, x), S::b_le(x, hi)));
            // the result is one of the evaluated abscissae: its function value is below tol, or a sign change lies within tol
            let l = log.borrow();
            let mut small = S::b_const(false);
            for (p, fp) in l.iter() {
                small = S::b_or(small, S::b_and(S::b_eq(*p, x), S::b_lt(fp.sabs(), tol)));
            }
            drop(l);
            let near = sign_change_near(&log, x, tol * S::lit(1.0 + 1e-9));
            S::prove("brent/small-value-or-sign-change-within-tolerance", S::b_or(small, near));
        }
        Err(_) => S::prove("brent/opposite-signs-do-not-give-err", S::b_const(false)),
    }
}

fn brent_errors<S: Sc>() {
    let a = S::input("a", -4.0, 4.0);
    let b = S::input("b", -4.0, 4.0);
    let tol = S::input("tol", -0.5, 0.5);
    // (narrow brackets only: the claim is about the entry checks)
    S::assume(S::b_le((a - b).sabs(), tol.sabs() * S::lit(2.0)));
    let log: Log<S> = RefCell::new(vec![]);
    let res = brent((a, b), tape_fn(&log), tol);
    if res.is_ok() {
        S::prove("brent/negative-tolerance-gives-err", S::b_le(S::lit(0.0), tol));
        let l = log.borrow();
        let (f0, f1, z) = (l[0].1, l[1].1, S::lit(0.0));
        S::prove("brent/same-sign-ends-give-err", S::b_or(S::b_and(S::b_le(f0, z), S::b_le(z, f1)), S::b_and(S::b_le(f1, z), S::b_le(z, f0))));
    } else {
        S::reach("brent/err");
    }
}

/// ITP: seeded concrete bracket, tolerance and parameters (its projection radius uses powf/log2, which stay
/// concrete this way); the function values are symbolic
fn itp_h<S: Sc>(seed: i64, member: usize) {
    let mut g = Lcg::new(seed * 101 + member as i64);
    let a = g.range_r(-3.0, 3.0, 2);
    // (tolerance, bracket width / tolerance, bracket given in reversed order)
    // (reversed brackets make ITP creep: measured minutes per member; thorough tier only)
    let table = [(0.05, 3.5, false), (0.2, 3.0, false), (0.01, 2.5, false), (0.01, 2.2, true), (0.01, 5.0, false), (0.05, 6.0, false)];
    let (tol, wf, reversed) = table[member % table.len()];
    let width = tol * wf;
    let b = if reversed { a - width } else { a + width };
    let k1 = g.range_r(0.05, 0.5, 2);
    let k2 = [1.0 + 0.3, 2.0, 2.5][member % 3];
    let n0: f64 = [0.0, 0.5, 0.0][member % 3];
    let log: Log<S> = RefCell::new(vec![]);
    let (fa, fb) = (S::tape("f", &[S::lit(a)], -FB, FB), S::tape("f", &[S::lit(b)], -FB, FB));
    S::assume(S::b_or(S::b_and(S::b_lt(fa, S::lit(0.0)), S::b_lt(S::lit(0.0), fb)), S::b_and(S::b_lt(fb, S::lit(0.0)), S::b_lt(S::lit(0.0), fa))));
    let n_half_ref = ((width / (2.0 * tol)).log2().ceil()) as usize;
    let budget = 2 + 4 * (n_half_ref + 2 * (n0.ceil() as usize) + 2);
    let res = itp((S::lit(a), S::lit(b)), tape_fn_budget(&log, budget + 1), S::lit(k1), S::lit(k2), S::lit(n0), S::lit(tol));
    S::reach("itp");
    all_inside(&log, S::lit(a), S::lit(b), "itp/evaluates-only-inside-the-bracket");
    let n_half = ((width / (2.0 * tol)).log2().ceil()) as usize;
    // ITP promises n_half + n0 iterations; the budget here is a generous multiple (the statement only asks for a bound)
    S::prove("itp/evaluation-count-bounded", S::b_const(log.borrow().len() <= 2 + 4 * (n_half + 2 * (n0.ceil() as usize) + 2)));
    match res {
        Ok(x) => {
            S::reach("itp/ok");
            S::prove("itp/result-inside-the-bracket", S::b_and(S::b_le(S::lit(a.min(b)), x), S::b_le(x, S::lit(a.max(b)))));
            let near = sign_change_near(&log, x, S::lit(tol * (1.0 + 1e-9)));
            S::prove("itp/sign-change-within-tolerance-of-result", near);
        }
        Err(_) => S::prove("itp/opposite-signs-do-not-give-err", S::b_const(false)),
    }
}

/// ITP on the one-parameter family f(x) = slope*(x - c), root c symbolic anywhere in a seeded concrete
/// bracket that is many tolerances wide: termination within the method's own bound, containment, and the
/// result within tol of the true root.  (One symbolic quantity: the queries stay univariate.)
fn itp_linear<S: Sc>(seed: i64, member: usize) {
    let mut g = Lcg::new(seed * 211 + member as i64);
    let tol = [0.01, 0.05, 1e-3][member % 3];
    let wf = [7.0, 13.0, 24.5, 6.2][member % 4];
    let width = tol * wf;
    let a = g.range_r(-2.0, 2.0, 2);
    let reversed = member % 2 == 1;
    let (lo, hi) = (a, a + width);
    let (p, q) = if reversed { (hi, lo) } else { (lo, hi) };
    let k1 = g.range_r(0.05, 0.4, 2);
    let k2 = [1.3, 2.0, 2.5][member % 3];
    let n0: f64 = [0.0, 0.25, 1.0][(member / 2) % 3];
    let slope = if member % 4 < 2 { 1.5 } else { -0.75 };
    let c = S::input("root", lo + 1e-3 * width, hi - 1e-3 * width);
    let n_half = ((width / (2.0 * tol)).log2().ceil()) as usize;
    let budget = 2 + n_half + n0.ceil() as usize + 3;
    let calls = RefCell::new(0usize);
    let inside = RefCell::new(true);
    let res = itp(
        (S::lit(p), S::lit(q)),
        |x: S| {
            *calls.borrow_mut() += 1;
            if *calls.borrow() > 4 * budget {
                S::prove("itp-linear/terminates-within-the-evaluation-budget", S::b_const(false));
                std::panic::panic_any(crate::eng::CutPath("evaluation budget exhausted".into()));
            }
            if !S::holds(S::b_and(S::b_le(S::lit(lo - 1e-12), x), S::b_le(x, S::lit(hi + 1e-12)))) {
                *inside.borrow_mut() = false;
            }
            S::lit(slope) * (x - c)
        },
        S::lit(k1),
        S::lit(k2),
        S::lit(n0),
        S::lit(tol),
    );
    S::reach("itp-linear");
    S::prove("itp-linear/evaluates-only-inside-the-bracket", S::b_const(*inside.borrow()));
    S::prove("itp-linear/evaluation-count-within-the-method-bound", S::b_const(*calls.borrow() <= budget));
    match res {
        Ok(x) => S::prove_m("itp-linear/result-within-tolerance-of-the-root", S::b_close(x, c, S::lit(tol * (1.0 + 1e-9))), S::b_gt((x - c).sabs(), S::lit(tol * 1.5))),
        Err(_) => S::prove("itp-linear/opposite-signs-do-not-give-err", S::b_const(false)),
    }
}

fn itp_errors<S: Sc>() {
    let tol = S::input("tol", -0.5, 0.5);
    let k1 = S::input("k1", -1.0, 1.0);
    let k2 = S::input("k2", 0.5, 3.0);
    let log: Log<S> = RefCell::new(vec![]);
    let res = itp((S::lit(-0.25), S::lit(0.5)), tape_fn(&log), k1, k2, S::lit(0.5), tol);
    if res.is_ok() {
        S::prove("itp/negative-tolerance-gives-err", S::b_le(S::lit(0.0), tol));
        S::prove("itp/negative-k1-gives-err", S::b_le(S::lit(0.0), k1));
        S::prove("itp/k2-outside-(1,1+phi)-gives-err", S::b_and(S::b_lt(S::lit(1.0), k2), S::b_lt(k2, S::lit(1.0 + 0.5 * (1.0 + 5f64.sqrt())))));
    } else {
        S::reach("itp/err");
    }
}

/// same-sign end values give Err (concrete parameters, symbolic function values)
fn itp_same_sign<S: Sc>() {
    let log: Log<S> = RefCell::new(vec![]);
    let (fa, fb) = (S::tape("f", &[S::lit(-0.25)], -FB, FB), S::tape("f", &[S::lit(0.5)], -FB, FB));
    let z = S::lit(0.0);
    S::assume(S::b_or(S::b_and(S::b_lt(fa, z), S::b_lt(fb, z)), S::b_and(S::b_lt(z, fb), S::b_lt(z, fa))));
    let res = itp((S::lit(-0.25), S::lit(0.5)), tape_fn(&log), S::lit(0.1), S::lit(2.0), S::lit(0.5), S::lit(0.05));
    S::prove("itp/same-sign-ends-give-err", S::b_const(res.is_err()));
}

pub fn run(pr: &mut PropRun, t: &Tier) {
    pr.funcs(&["roots::bisection", "roots::brent", "roots::itp"]);
    let k = if t.thorough { 4 } else { 3 };
    pr.bound(&format!("bisection, Brent: bracket, tolerance and ALL function values symbolic (the function is an arbitrary bounded function, memoised so that it is a function); bracket width <= 2^{}*tol (bounds the iterations); ITP: seeded concrete bracket/tolerance/parameters, function values symbolic", k));
    pr.outside("brackets wider than 2^k*tol; end values exactly zero; ITP with symbolic parameters (powf/log2 of symbolic arguments are uninterpreted); rounding");
    pr.assume("replay: the recorded samples are replayed as a continuous piecewise-linear function");
    for kk in 1..=k {
        let mut cfg = t.cfg(&format!("C07:bisection(width<=2^{}tol,n_max={})", kk, kk + 3));
        cfg.max_decisions = 200;
        run_h!(pr, cfg, bisect, kk, (kk + 3) as usize);
    }
    run_h!(pr, t.cfg("C07:bisection(same-sign)"), bisect_same_sign);
    // measured: width <= 2 tol: 256 paths / 8 s; width <= 4 tol: > 1500 paths / 5 min
    for kk in 1..=(if t.thorough { 2 } else { 1 }) {
        let mut cfg = t.cfg(&format!("C07:brent(width<=2^{}tol)", kk));
        cfg.max_decisions = 120;
        cfg.max_paths = 1500;
        run_h!(pr, cfg, brent_h, kk);
    }
    let mut cfg = t.cfg("C07:brent(errors)");
    cfg.max_decisions = 60;
    cfg.max_paths = 600;
    run_h!(pr, cfg, brent_errors);
    // measured: width 3.5 tol: 64 paths / 8 s; width 5 tol: > 350 paths / 8 min
    // (member 1 has k2 = 2: delta is a polynomial of the symbolic bracket, measured 5 min; thorough tier)
    for m in (if t.thorough { vec![0usize, 1, 2, 3, 4, 5] } else { vec![0usize, 2] }) {
        let mut cfg = t.cfg(&format!("C07:itp(member={})", m));
        cfg.max_decisions = 150;
        cfg.max_paths = 1500;
        run_h!(pr, cfg, itp_h, t.seed, m);
    }
    for m in 0..(if t.thorough { 12 } else { 6 }) {
        let mut cfg = t.cfg(&format!("C07:itp-linear(member={})", m));
        cfg.max_decisions = 400;
        cfg.max_paths = 1500;
        run_h!(pr, cfg, itp_linear, t.seed, m);
    }
    let mut cfg = t.cfg("C07:itp(errors)");
    cfg.max_decisions = 40;
    cfg.max_paths = 400;
    cfg.feas_timeout_s = 2.0;
    run_h!(pr, cfg, itp_errors);
    run_h!(pr, t.cfg("C07:itp(same-sign)"), itp_same_sign);
}
