//! Shared driver for the seven IVP solvers (used by C01..C06).
use crate::sym::Sc;
use bacon_sci::ivp::adams::{Adams3, Adams5};
use bacon_sci::ivp::bdf::{BDF2, BDF6};
use bacon_sci::ivp::rk::{RungeKutta23, RungeKutta45};
use bacon_sci::ivp::{Euler, IVPError, IVPSolver, UserError};
use bacon_sci::{BVector, Dimension};
use nalgebra::allocator::Allocator;
use nalgebra::{Const, DefaultAllocator, Dim, DimName, Dyn, U1};
use std::cell::RefCell;
use std::rc::Rc;

#[derive(Clone, Copy, PartialEq, Eq, Debug)]
pub enum Kind {
    Euler,
    RK45,
    RK23,
    Adams5,
    Adams3,
    BDF6,
    BDF2,
}

impl Kind {
    pub fn name(self) -> &'static str {
        match self {
            Kind::Euler => "Euler",
            Kind::RK45 => "RK45",
            Kind::RK23 => "RK23",
            Kind::Adams5 => "Adams5",
            Kind::Adams3 => "Adams3",
            Kind::BDF6 => "BDF6",
            Kind::BDF2 => "BDF2",
        }
    }
    pub fn adaptive(self) -> bool {
        self != Kind::Euler
    }
    /// number of start-up Runge-Kutta steps of the multistep methods
    pub fn startup(self) -> usize {
        match self {
            Kind::Adams5 => 4,
            Kind::Adams3 => 2,
            Kind::BDF6 => 7,
            Kind::BDF2 => 3,
            _ => 0,
        }
    }
    pub const ALL: [Kind; 7] = [Kind::Euler, Kind::RK45, Kind::RK23, Kind::Adams5, Kind::Adams3, Kind::BDF6, Kind::BDF2];
    pub const ADAPTIVE: [Kind; 6] = [Kind::RK45, Kind::RK23, Kind::Adams5, Kind::Adams3, Kind::BDF6, Kind::BDF2];
}

#[derive(Clone)]
pub struct Conf<S> {
    pub t0: S,
    pub t1: S,
    pub dt_min: S,
    pub dt_max: S,
    pub tol: S,
    pub y0: Vec<S>,
}

#[derive(Clone)]
pub struct Call<S> {
    pub t: S,
    pub y: Vec<S>,
    pub v: Vec<S>,
}
pub type Log<S> = Rc<RefCell<Vec<Call<S>>>>;
pub fn new_log<S>() -> Log<S> {
    Rc::new(RefCell::new(vec![]))
}

#[derive(Clone)]
pub struct Item<S> {
    pub t: S,
    pub y: Vec<S>,
    /// number of derivative calls made before this item was yielded
    pub calls: usize,
}

#[derive(Clone)]
pub struct Run<S> {
    pub build_err: Option<String>,
    pub items: Vec<Item<S>>,
    /// Debug rendering of the first Err item
    pub err: Option<String>,
    /// iterator returned None
    pub ended: bool,
    /// stopped because max_items was reached
    pub truncated: bool,
    /// items (of any kind) yielded after the first None / Err
    pub extra_after_end: usize,
    pub calls_at_end: usize,
}

pub type Rhs<S, D> = Box<dyn FnMut(S, &[S], &mut ()) -> Result<BVector<S, D>, UserError>>;

pub fn vec_d<S: Sc, D: Dimension>(v: &[S]) -> BVector<S, D>
where
    DefaultAllocator: Allocator<S, D>,
{
    BVector::from_iterator_generic(D::from_usize(v.len()), U1::name(), v.iter().cloned())
}

/// arbitrary right-hand side: each component is an uninterpreted function of (t, y), |value| <= vmax
pub fn tape_rhs<S: Sc, D: Dimension>(log: Log<S>, vmax: f64, fail_at: Option<usize>) -> Rhs<S, D>
where
    DefaultAllocator: Allocator<S, D>,
{
    Box::new(move |t: S, y: &[S], _d: &mut ()| {
        let k = log.borrow().len();
        if fail_at == Some(k) {
            log.borrow_mut().push(Call { t, y: y.to_vec(), v: vec![] });
            return Err(format!("user failure at call {}", k).into());
        }
        let mut args = vec![t];
        args.extend_from_slice(y);
        let v: Vec<S> = (0..y.len()).map(|i| S::tape(&format!("f{}", i), &args, -vmax, vmax)).collect();
        log.borrow_mut().push(Call { t, y: y.to_vec(), v: v.clone() });
        Ok(vec_d::<S, D>(&v))
    })
}

/// closed-form right-hand side given by a function
pub fn fn_rhs<S: Sc, D: Dimension, G>(log: Log<S>, g: G) -> Rhs<S, D>
where
    G: Fn(S, &[S]) -> Vec<S> + 'static,
    DefaultAllocator: Allocator<S, D>,
{
    Box::new(move |t: S, y: &[S], _d: &mut ()| {
        let v = g(t, y);
        log.borrow_mut().push(Call { t, y: y.to_vec(), v: v.clone() });
        Ok(vec_d::<S, D>(&v))
    })
}

/// affine scalar field f(t,y)_d = a*y_d + b*t + c with symbolic a, b, c (used where the implicit
/// BDF equations must stay linear so that the Broyden iteration terminates)
pub fn affine_rhs<S: Sc, D: Dimension>(log: Log<S>) -> (Rhs<S, D>, (S, S, S))
where
    DefaultAllocator: Allocator<S, D>,
{
    let a = S::input("a", -2.0, 0.5);
    let b = S::input("b", -2.0, 2.0);
    let c = S::input("c", -2.0, 2.0);
    (fn_rhs::<S, D, _>(log, move |t: S, y: &[S]| y.iter().map(|yd| a * *yd + b * t + c).collect()), (a, b, c))
}

pub fn drive<'a, S, D, Slv>(c: &Conf<S>, f: Slv::Derivative, max_items: usize, log: &Log<S>, dynamic: bool, post: usize) -> Run<S>
where
    S: Sc,
    D: Dimension,
    Slv: IVPSolver<'a, D, Field = S, RealField = S, UserData = (), Error = IVPError>,
    DefaultAllocator: Allocator<S, D>,
{
    let mut run = Run { build_err: None, items: vec![], err: None, ended: false, truncated: false, extra_after_end: 0, calls_at_end: 0 };
    let built = (|| -> Result<_, IVPError> {
        let s = if dynamic { Slv::new_dyn(c.y0.len())? } else { Slv::new()? };
        s.with_tolerance(c.tol)?
            .with_minimum_dt(c.dt_min)?
            .with_maximum_dt(c.dt_max)?
            .with_initial_time(c.t0)?
            .with_ending_time(c.t1)?
            .with_initial_conditions_slice(&c.y0)?
            .with_derivative(f)
            .solve(())
    })();
    let mut it = match built {
        Ok(it) => it,
        Err(e) => {
            run.build_err = Some(format!("{:?}", e));
            return run;
        }
    };
    loop {
        if run.items.len() >= max_items {
            run.truncated = true;
            break;
        }
        match it.next() {
            None => {
                run.ended = true;
                break;
            }
            Some(Ok((t, y))) => run.items.push(Item { t, y: y.iter().cloned().collect(), calls: log.borrow().len() }),
            Some(Err(e)) => {
                run.err = Some(format!("{:?}", e));
                break;
            }
        }
    }
    run.calls_at_end = log.borrow().len();
    if !run.truncated {
        for _ in 0..post {
            if it.next().is_some() {
                run.extra_after_end += 1;
            }
        }
    }
    run
}

macro_rules! dispatch {
    ($fname:ident, $D:ty, $dynamic:expr) => {
        pub fn $fname<S: Sc>(kind: Kind, c: &Conf<S>, f: Rhs<S, $D>, max_items: usize, log: &Log<S>, post: usize) -> Run<S> {
            match kind {
                Kind::Euler => drive::<S, $D, Euler<S, $D, (), Rhs<S, $D>>>(c, f, max_items, log, $dynamic, post),
                Kind::RK45 => drive::<S, $D, RungeKutta45<S, $D, (), Rhs<S, $D>>>(c, f, max_items, log, $dynamic, post),
                Kind::RK23 => drive::<S, $D, RungeKutta23<S, $D, (), Rhs<S, $D>>>(c, f, max_items, log, $dynamic, post),
                Kind::Adams5 => drive::<S, $D, Adams5<S, $D, (), Rhs<S, $D>>>(c, f, max_items, log, $dynamic, post),
                Kind::Adams3 => drive::<S, $D, Adams3<S, $D, (), Rhs<S, $D>>>(c, f, max_items, log, $dynamic, post),
                Kind::BDF6 => drive::<S, $D, BDF6<S, $D, (), Rhs<S, $D>>>(c, f, max_items, log, $dynamic, post),
                Kind::BDF2 => drive::<S, $D, BDF2<S, $D, (), Rhs<S, $D>>>(c, f, max_items, log, $dynamic, post),
            }
        }
    };
}
dispatch!(run_d1, Const<1>, false);
dispatch!(run_d2, Const<2>, false);
dispatch!(run_dyn, Dyn, true);
dispatch!(run_d4, Const<4>, false);

/// Find the value the derivative function returned at (t, y): the most recent logged call whose
/// arguments are entailed (by the path condition) to equal (t, y) up to 1e-9.
pub fn lookup<S: Sc>(calls: &[Call<S>], t: S, y: &[S]) -> Option<Vec<S>> {
    let eps = S::lit(1e-9);
    for call in calls.iter().rev() {
        if call.v.is_empty() || call.y.len() != y.len() {
            continue;
        }
        if !S::probably_equal(call.t, t) || !call.y.iter().zip(y).all(|(a, b)| S::probably_equal(*a, *b)) {
            continue;
        }
        let mut cond = S::b_close(call.t, t, eps);
        for (a, b) in call.y.iter().zip(y) {
            cond = S::b_and(cond, S::b_close(*a, *b, eps));
        }
        if S::holds(cond) {
            return Some(call.v.clone());
        }
    }
    None
}

pub fn conf_inputs<S: Sc>(dim: usize, ybox: f64) -> Conf<S> {
    Conf {
        t0: S::input("t0", -10.0, 10.0),
        t1: S::input("t1", -10.0, 20.0),
        dt_min: S::input("dt_min", 1e-3, 1.0),
        dt_max: S::input("dt_max", 1e-3, 1.0),
        tol: S::input("tol", 1e-8, 1.0),
        y0: (0..dim).map(|i| S::input(&format!("y0_{}", i), -ybox, ybox)).collect(),
    }
}

/// Seeded concrete problem family for the implicit (BDF) solvers: concrete step bounds, initial
/// state and affine field f = a*y + b*t + c; symbolic start time, end time and tolerance.  Every
/// solver-internal quantity is then affine in t0, so all queries are linear.
pub fn conf_family<S: Sc, D: Dimension>(dim: usize, seed: i64, member: usize, log: Log<S>) -> (Conf<S>, Rhs<S, D>, (f64, f64, f64))
where
    DefaultAllocator: Allocator<S, D>,
{
    conf_family_opt(dim, seed, member, log, false)
}

/// `nonautonomous`: b != 0 and a concrete start time (keeps every state a constant; t1 and tol stay symbolic)
pub fn conf_family_opt<S: Sc, D: Dimension>(dim: usize, seed: i64, member: usize, log: Log<S>, nonautonomous: bool) -> (Conf<S>, Rhs<S, D>, (f64, f64, f64))
where
    DefaultAllocator: Allocator<S, D>,
{
    let mut g = crate::h::util::Lcg::new(seed.wrapping_mul(7919).wrapping_add(member as i64 * 104729 + 17));
    let dt_min = g.range_r(0.02, 0.2, 3);
    // odd members allow several halvings before the minimum step is reached
    let dt_max = (dt_min * if member % 2 == 0 { g.range(1.0, 2.0) } else { g.range(4.0, 7.0) } * 1000.0).round() / 1000.0;
    let a = g.range_r(-2.0, 0.5, 2);
    // autonomous members only: with b != 0 the Broyden update makes the states rational in t0 (measured: minutes per path)
    let bb = g.range_r(0.3, 1.0, 2) * if member % 2 == 0 { 1.0 } else { -1.0 };
    let b = if nonautonomous { bb } else { 0.0 };
    let c = g.range_r(-1.0, 1.0, 2);
    let y0: Vec<S> = (0..dim).map(|_| S::lit(g.range_r(-2.0, 2.0, 2))).collect();
    let conf = Conf {
        t0: if nonautonomous { S::lit(g.range_r(-3.0, 3.0, 2)) } else { S::input("t0", -10.0, 10.0) },
        t1: S::input("t1", -10.0, 20.0),
        dt_min: S::lit(dt_min),
        dt_max: S::lit(dt_max),
        tol: S::input("tol", 1e-8, 1.0),
        y0,
    };
    let (la, lb, lc) = (S::lit(a), S::lit(b), S::lit(c));
    let f = fn_rhs::<S, D, _>(log, move |t: S, y: &[S]| y.iter().map(|yd| la * *yd + lb * t + lc).collect());
    (conf, f, (a, b, c))
}

/// the documented validity predicate of a configuration
pub fn assume_valid<S: Sc>(c: &Conf<S>) {
    S::assume(S::b_le(c.dt_min, c.dt_max));
    S::assume(S::b_lt(c.t0, c.t1));
}

#[allow(dead_code)]
fn _unused() {
    let _ = <Const<1> as DimName>::name();
    let _ = <Dyn as Dim>::from_usize(1);
}
