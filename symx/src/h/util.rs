//! helpers shared by harnesses
use crate::sym::Sc;

/// Horner evaluation of sum c[k] x^k
pub fn horner<S: Sc>(c: &[S], x: S) -> S {
    let mut acc = S::lit(0.0);
    for k in (0..c.len()).rev() {
        acc = acc * x + c[k];
    }
    acc
}

pub fn inputs<S: Sc>(prefix: &str, n: usize, lo: f64, hi: f64) -> Vec<S> {
    (0..n).map(|k| S::input(&format!("{}{}", prefix, k), lo, hi)).collect()
}

pub fn sum<S: Sc>(v: &[S]) -> S {
    let mut acc = S::lit(0.0);
    for x in v {
        acc = acc + *x;
    }
    acc
}

pub fn sum_abs<S: Sc>(v: &[S]) -> S {
    let mut acc = S::lit(0.0);
    for x in v {
        acc = acc + x.sabs();
    }
    acc
}

/// simple deterministic generator for the seeded concrete families
pub struct Lcg(pub u64);
impl Lcg {
    pub fn new(seed: i64) -> Self {
        Lcg((seed as u64).wrapping_mul(0x9E3779B97F4A7C15) ^ 0xD1B54A32D192ED03)
    }
    pub fn next_u64(&mut self) -> u64 {
        self.0 ^= self.0 << 13;
        self.0 ^= self.0 >> 7;
        self.0 ^= self.0 << 17;
        self.0
    }
    /// uniform in [0,1)
    pub fn unit(&mut self) -> f64 {
        (self.next_u64() >> 11) as f64 / (1u64 << 53) as f64
    }
    pub fn range(&mut self, lo: f64, hi: f64) -> f64 {
        lo + (hi - lo) * self.unit()
    }
    /// value rounded to k decimal digits (short rationals keep queries small)
    pub fn range_r(&mut self, lo: f64, hi: f64, k: i32) -> f64 {
        let p = 10f64.powi(k);
        (self.range(lo, hi) * p).round() / p
    }
    pub fn below(&mut self, n: usize) -> usize {
        (self.next_u64() % (n as u64)) as usize
    }
}
