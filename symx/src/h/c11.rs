//! C11 — polynomial arithmetic, including FFT products, matches coefficient algebra.
use super::util::*;
use super::Tier;
use crate::ev::PropRun;
use crate::run_h;
use crate::sym::Sc;
use bacon_sci::polynomial::Polynomial;
use num_complex::Complex;

const CB: f64 = 10.0;

fn poly_of<S: Sc>(c: &[S]) -> Polynomial<S> {
    let rev: Vec<S> = c.iter().rev().cloned().collect();
    Polynomial::from_slice(&rev)
}
fn cpoly_of<S: Sc>(c: &[Complex<S>]) -> Polynomial<Complex<S>> {
    let rev: Vec<Complex<S>> = c.iter().rev().cloned().collect();
    Polynomial::from_slice(&rev)
}
fn coef<S: Sc>(v: &[S], k: usize) -> S {
    if k < v.len() {
        v[k]
    } else {
        S::lit(0.0)
    }
}

/// sums, differences, negation and scalar forms through every owned / borrowed / assigning operator
fn linear_forms<S: Sc>(la: usize, lb: usize) {
    let a = inputs::<S>("a", la, -CB, CB);
    let b = inputs::<S>("b", lb, -CB, CB);
    let s = S::input("s", -CB, CB);
    let d = S::input("d", 0.5, CB);
    let (pa, pb) = (poly_of(&a), poly_of(&b));
    let n = la.max(lb);
    let check = |name: &str, p: &Polynomial<S>, want: &dyn Fn(usize) -> S| {
        S::prove(&format!("{}/order", name), S::b_const(p.order() + 1 == if name.starts_with("scalar") || name.starts_with("neg") { la } else { n }));
        for k in 0..n + 1 {
            S::prove(&format!("{}/coefficients", name), S::b_close(p.get_coefficient(k), want(k), S::lit(1e-9)));
        }
    };
    S::reach("linear-forms");
    let sum = |k: usize| coef(&a, k) + coef(&b, k);
    check("add(owned,owned)", &(pa.clone() + pb.clone()), &sum);
    check("add(owned,&)", &(pa.clone() + &pb), &sum);
    check("add(&,owned)", &(&pa + pb.clone()), &sum);
    check("add(&,&)", &(&pa + &pb), &sum);
    let mut t = pa.clone();
    t += pb.clone();
    check("add_assign(owned)", &t, &sum);
    let mut t = pa.clone();
    t += &pb;
    check("add_assign(&)", &t, &sum);
    let diff = |k: usize| coef(&a, k) - coef(&b, k);
    check("sub(owned,owned)", &(pa.clone() - pb.clone()), &diff);
    check("sub(owned,&)", &(pa.clone() - &pb), &diff);
    check("sub(&,owned)", &(&pa - pb.clone()), &diff);
    check("sub(&,&)", &(&pa - &pb), &diff);
    let mut t = pa.clone();
    t -= pb.clone();
    check("sub_assign(owned)", &t, &diff);
    let mut t = pa.clone();
    t -= &pb;
    check("sub_assign(&)", &t, &diff);
    let neg = |k: usize| -coef(&a, k);
    check("neg(owned)", &(-pa.clone()), &neg);
    check("neg(&)", &(-&pa), &neg);
    let sc = |k: usize| coef(&a, k) * s;
    check("scalar-mul(owned)", &(pa.clone() * s), &sc);
    check("scalar-mul(&)", &(&pa * s), &sc);
    let mut t = pa.clone();
    t *= s;
    check("scalar-mul_assign", &t, &sc);
    let dv = |k: usize| coef(&a, k) / d;
    check("scalar-div(owned)", &(pa.clone() / d), &dv);
    check("scalar-div(&)", &(&pa / d), &dv);
    let mut t = pa.clone();
    t /= d;
    check("scalar-div_assign", &t, &dv);
    let ad = |k: usize| if k == 0 { a[0] + s } else { coef(&a, k) };
    check("scalar-add(owned)", &(pa.clone() + s), &ad);
    check("scalar-add(&)", &(&pa + s), &ad);
    let mut t = pa.clone();
    t += s;
    check("scalar-add_assign", &t, &ad);
    let sb = |k: usize| if k == 0 { a[0] - s } else { coef(&a, k) };
    check("scalar-sub(owned)", &(pa.clone() - s), &sb);
    check("scalar-sub(&)", &(&pa - s), &sb);
    let mut t = pa.clone();
    t -= s;
    check("scalar-sub_assign", &t, &sb);
}

fn conv<S: Sc>(a: &[S], b: &[S], k: usize) -> S {
    let mut acc = S::lit(0.0);
    for i in 0..a.len() {
        if k >= i && k - i < b.len() {
            acc = acc + a[i] * b[k - i];
        }
    }
    acc
}

/// real products (scalar, linear-factor and FFT code paths by operand length), all ownership forms
fn product<S: Sc>(la: usize, lb: usize, concrete_b: Option<i64>) {
    let a = inputs::<S>("a", la, -CB, CB);
    let b: Vec<S> = match concrete_b {
        None => inputs::<S>("b", lb, -CB, CB),
        Some(seed) => {
            let mut g = Lcg::new(seed);
            (0..lb).map(|_| S::lit(g.range_r(-8.0, 8.0, 3))).collect()
        }
    };
    // leading coefficients non-negligible: the product's degree is the sum of the degrees
    S::assume(S::b_ge(a[la - 1].sabs(), S::lit(0.1)));
    S::assume(S::b_ge(b[lb - 1].sabs(), S::lit(0.1)));
    let (pa, pb) = (poly_of(&a), poly_of(&b));
    let l1 = (la * lb) as f64 * CB * CB;
    let tol = S::lit(1e-12 * l1 + 1e-10);
    let mut forms: Vec<(&str, Polynomial<S>)> = vec![("mul(&,&)", &pa * &pb), ("mul(&b,&a)-commuted", &pb * &pa)];
    if la * lb <= 100 {
        forms.push(("mul(owned,owned)", pa.clone() * pb.clone()));
        forms.push(("mul(owned,&)", pa.clone() * &pb));
        forms.push(("mul(&,owned)", &pa * pb.clone()));
        forms.push(("mul_assign(owned)", {
            let mut t = pa.clone();
            t *= pb.clone();
            t
        }));
        forms.push(("mul_assign(&)", {
            let mut t = pa.clone();
            t *= &pb;
            t
        }));
    }
    S::reach("product");
    for (name, p) in forms.iter() {
        S::prove(&format!("{}/degree-is-sum-of-degrees", name), S::b_const(p.order() == la + lb - 2));
        for k in 0..(la + lb + 2) {
            let want = conv(&a, &b, k);
            S::prove_m(&format!("{}/coefficients-are-the-convolution", name), S::b_close(p.get_coefficient(k), want, tol), S::b_gt((p.get_coefficient(k) - want).sabs(), S::lit(1e-3)));
        }
    }
    // agreement with pointwise multiplication of values (symbolic point where the query stays small)
    if concrete_b.is_some() || la + lb <= 5 {
        let x = if la + lb <= 5 { S::input("x", -1.5, 1.5) } else { S::lit(0.75) };
        let prod = &forms[0].1;
        let scale = (la * lb) as f64 * CB * CB * 1.5f64.powi((la + lb) as i32);
        S::prove("product-value-is-product-of-values", S::b_close(prod.evaluate(x), pa.evaluate(x) * pb.evaluate(x), S::lit(1e-11 * scale + 1e-9)));
    }
}

/// complex products through the FFT path (real and imaginary parts of the convolution)
fn product_complex<S: Sc>(la: usize, lb: usize, concrete_b: Option<i64>) {
    let ar = inputs::<S>("ar", la, -CB, CB);
    let ai = inputs::<S>("ai", la, -CB, CB);
    let (br, bi): (Vec<S>, Vec<S>) = match concrete_b {
        None => (inputs::<S>("br", lb, -CB, CB), inputs::<S>("bi", lb, -CB, CB)),
        Some(seed) => {
            let mut g = Lcg::new(seed);
            ((0..lb).map(|_| S::lit(g.range_r(-8.0, 8.0, 3))).collect(), (0..lb).map(|_| S::lit(g.range_r(-8.0, 8.0, 3))).collect())
        }
    };
    S::assume(S::b_ge(ar[la - 1].sabs(), S::lit(0.1)));
    S::assume(S::b_ge(br[lb - 1].sabs(), S::lit(0.1)));
    let a: Vec<Complex<S>> = (0..la).map(|k| Complex::new(ar[k], ai[k])).collect();
    let b: Vec<Complex<S>> = (0..lb).map(|k| Complex::new(br[k], bi[k])).collect();
    let p = &cpoly_of(&a) * &cpoly_of(&b);
    let q = &cpoly_of(&b) * &cpoly_of(&a);
    let l1 = (la * lb) as f64 * 4.0 * CB * CB;
    let tol = S::lit(1e-12 * l1 + 1e-10);
    S::reach("complex-product");
    S::prove("complex-mul/degree-is-sum-of-degrees", S::b_const(p.order() == la + lb - 2));
    for k in 0..(la + lb + 2) {
        let wr = conv(&ar, &br, k) - conv(&ai, &bi, k);
        let wi = conv(&ar, &bi, k) + conv(&ai, &br, k);
        let c = p.get_coefficient(k);
        S::prove_m("complex-mul/real-part-of-convolution", S::b_close(c.re, wr, tol), S::b_gt((c.re - wr).sabs(), S::lit(1e-3)));
        S::prove_m("complex-mul/imaginary-part-of-convolution", S::b_close(c.im, wi, tol), S::b_gt((c.im - wi).sabs(), S::lit(1e-3)));
        let d = q.get_coefficient(k);
        S::prove("complex-mul/commutative", S::b_and(S::b_close(c.re, d.re, tol), S::b_close(c.im, d.im, tol)));
    }
}

/// dft(p)[k] = p(w^k) with w = exp(2 pi i / n); idft(dft(p)) = p
fn transform<S: Sc>(len: usize, size: usize) {
    let c = inputs::<S>("c", len, -CB, CB);
    S::assume(S::b_ge(c[len - 1].sabs(), S::lit(0.1)));
    let p = poly_of(&c);
    let v = p.dft(size);
    let mut n = 1usize;
    while n < size {
        n <<= 1;
    }
    S::reach("transform");
    S::prove("dft/length-is-next-power-of-two", S::b_const(v.len() == n.max(len.next_power_of_two())));
    let n = v.len();
    let tol = S::lit(1e-9);
    for k in 0..n {
        // p(w^k) = sum_j c_j (cos(2 pi j k / n) + i sin(2 pi j k / n))
        let (mut re, mut im) = (S::lit(0.0), S::lit(0.0));
        for j in 0..len {
            let ang = 2.0 * std::f64::consts::PI * ((j * k) % n) as f64 / n as f64;
            re = re + c[j] * S::lit(ang.cos());
            im = im + c[j] * S::lit(ang.sin());
        }
        S::prove("dft/value-at-root-of-unity-re", S::b_close(v[k].re, re, tol));
        S::prove("dft/value-at-root-of-unity-im", S::b_close(v[k].im, im, tol));
    }
    let back: Polynomial<S> = Polynomial::idft(&v, S::lit(1e-10));
    S::prove("idft/recovers-degree", S::b_const(back.order() == len - 1));
    for k in 0..n {
        S::prove("idft/recovers-coefficients", S::b_close(back.get_coefficient(k), coef(&c, k), tol));
    }
}

pub fn run(pr: &mut PropRun, t: &Tier) {
    pr.funcs(&[
        "Polynomial ops::{Add,Sub,Mul,Div,Neg,AddAssign,SubAssign,MulAssign,DivAssign} (all owned/borrowed forms)",
        "polynomial::multiply (scalar, linear-factor and FFT paths)",
        "Polynomial::{dft,idft,pad_power_of_two,make_complex,purge_leading}",
        "polynomial::{bit_reverse,bit_reverse_copy}",
    ]);
    pr.bound("linear forms: operand lengths (1..5)x(1..5) subset, all coefficients symbolic in [-10,10]");
    pr.bound("products: both operands symbolic up to 5x3 (quick) / 6x7 (thorough) -- bilinear NRA queries; one operand symbolic x one seeded concrete operand up to 9x9 (quick) / 33x20 (thorough) -- linear queries; |leading| >= 0.1; real and complex");
    pr.outside("transform sizes > 64 (degree > 52): measured too slow for the solver (long exact coefficients); rounding of symbolic operations (twiddle factors are the exact doubles)");
    for (la, lb) in [(1usize, 1usize), (3, 1), (1, 3), (2, 4), (4, 2), (3, 3)] {
        run_h!(pr, t.cfg(&format!("C11:linear-forms({}x{})", la, lb)), linear_forms, la, lb);
    }
    // both operands symbolic: bilinear (NRA) queries; measured: 3x3 seconds, 5x5 does not finish
    let mut sizes = vec![(1usize, 3usize), (3, 1), (2, 4), (4, 2), (3, 3), (3, 4), (5, 3)];
    if t.thorough {
        sizes.extend_from_slice(&[(4, 4), (5, 5), (6, 7)]);
    }
    for (la, lb) in sizes.iter().cloned() {
        let mut cfg = t.cfg(&format!("C11:product({}x{})", la, lb));
        cfg.max_decisions = 200;
        run_h!(pr, cfg, product, la, lb, None);
    }
    // measured: 9x9 (transform size 32) ~30 s, 17x12 (size 64) ~4 min: every query carries all purge_leading decisions
    let big: Vec<(usize, usize)> = if t.thorough { vec![(5, 5), (9, 9), (17, 12), (33, 20)] } else { vec![(5, 5), (9, 9)] };
    for (la, lb) in big {
        let mut cfg = t.cfg(&format!("C11:product({}x{},concrete-b)", la, lb));
        cfg.max_decisions = 600;
        run_h!(pr, cfg, product, la, lb, Some(t.seed * 31 + la as i64));
    }
    // complex operands: 4 real unknowns per coefficient pair; both-symbolic bilinear queries only in the thorough tier
    if t.thorough {
        let mut cfg = t.cfg("C11:product-complex(3x3)");
        cfg.max_decisions = 200;
        run_h!(pr, cfg, product_complex, 3, 3, None);
    }
    for (la, lb) in (if t.thorough { vec![(3usize, 3usize), (4, 3), (5, 4)] } else { vec![(3usize, 3usize), (4, 3)] }) {
        let mut cfg = t.cfg(&format!("C11:product-complex({}x{},concrete-b)", la, lb));
        cfg.max_decisions = 600;
        run_h!(pr, cfg, product_complex, la, lb, Some(t.seed * 17 + la as i64));
    }
    for (len, size) in [(3usize, 4usize), (5, 8), (6, 16), (8, 8)] {
        run_h!(pr, t.cfg(&format!("C11:transform(len={},size={})", len, size)), transform, len, size);
    }
}
