//! C06 — IVP builders validate input; user errors end iteration exactly once.
use super::ivp::*;
use super::Tier;
use crate::ev::PropRun;
use crate::sym::Sc;
use bacon_sci::ivp::adams::{Adams3, Adams5};
use bacon_sci::ivp::bdf::{BDF2, BDF6};
use bacon_sci::ivp::rk::{RungeKutta23, RungeKutta45};
use bacon_sci::ivp::{Euler, IVPError, IVPSolver};
use nalgebra::{Const, Dyn};

#[derive(Clone, Copy, Debug, PartialEq, Eq)]
pub enum BCall {
    Tol,
    Min,
    Max,
    T0,
    T1,
}

/// reference model of the builder contract
#[derive(Clone)]
struct Model<S: Sc> {
    tol: bool,
    min: Option<S>,
    max: Option<S>,
    t0: Option<S>,
    t1: Option<S>,
}

fn variant(e: &IVPError) -> String {
    let s = format!("{:?}", e);
    s.split('(').next().unwrap_or("").to_string()
}

/// apply the call sequence with symbolic values to the real builder and to the model; compare outcomes
fn builder_seq<'a, S, Slv>(kind: Kind, seq: &[BCall], log: &Log<S>)
where
    S: Sc,
    Slv: IVPSolver<'a, Const<1>, Field = S, RealField = S, UserData = (), Error = IVPError, Derivative = Rhs<S, Const<1>>>,
{
    let mut b = match Slv::new() {
        Ok(b) => b,
        Err(_) => {
            S::prove("static-builder-constructs", S::b_const(false));
            return;
        }
    };
    let mut m: Model<S> = Model { tol: false, min: None, max: None, t0: None, t1: None };
    let zero = S::lit(0.0);
    S::reach("builder");
    for (i, c) in seq.iter().enumerate() {
        let v = S::input(&format!("v{}", i), -5.0, 5.0);
        // the model's verdict (a condition over the symbolic value) and the real builder's result
        let (res, want_err, errname): (Result<Slv, IVPError>, S::Bl, &str) = match c {
            BCall::Tol => {
                let bad = if kind == Kind::Euler { S::b_const(false) } else { S::b_le(v, zero) };
                m.tol = true;
                (b.with_tolerance(v), bad, "ToleranceOOB")
            }
            BCall::Min => {
                let bad = S::b_le(v, zero);
                (b.with_minimum_dt(v), bad, "TimeDeltaOOB")
            }
            BCall::Max => {
                let bad = S::b_le(v, zero);
                (b.with_maximum_dt(v), bad, "TimeDeltaOOB")
            }
            BCall::T0 => {
                let bad = match m.t1 {
                    Some(e) => S::b_le(e, v),
                    None => S::b_const(false),
                };
                (b.with_initial_time(v), bad, "TimeStartOOB")
            }
            BCall::T1 => {
                let bad = match m.t0 {
                    Some(s) => S::b_le(v, s),
                    None => S::b_const(false),
                };
                (b.with_ending_time(v), bad, "TimeEndOOB")
            }
        };
        match res {
            Err(e) => {
                S::prove(&format!("{:?}/rejected-only-when-invalid", c), want_err);
                S::prove(&format!("{:?}/dedicated-error-variant", c), S::b_const(variant(&e) == errname));
                return;
            }
            Ok(nb) => {
                S::prove(&format!("{:?}/accepted-only-when-valid", c), S::b_not(want_err));
                b = nb;
                // model update
                match c {
                    BCall::Min => {
                        if kind == Kind::Euler {
                            // Euler keeps one step: the mean of what it had and the new value
                            let cur = m.min.or(m.max);
                            let nv = match cur {
                                Some(d) => (d + v) * S::lit(0.5),
                                None => v,
                            };
                            m.min = Some(nv);
                            m.max = Some(nv);
                        } else {
                            m.min = Some(v);
                            if let Some(mx) = m.max {
                                m.max = Some(mx.smax(v));
                            }
                        }
                    }
                    BCall::Max => {
                        if kind == Kind::Euler {
                            let cur = m.min.or(m.max);
                            let nv = match cur {
                                Some(d) => (d + v) * S::lit(0.5),
                                None => v,
                            };
                            m.min = Some(nv);
                            m.max = Some(nv);
                        } else {
                            m.max = Some(v);
                            if let Some(mn) = m.min {
                                m.min = Some(mn.smin(v));
                            }
                        }
                    }
                    BCall::T0 => m.t0 = Some(v),
                    BCall::T1 => m.t1 = Some(v),
                    BCall::Tol => {}
                }
            }
        }
    }
    // complete the configuration with valid values for whatever the sequence did not set (except the step
    // bounds, whose interplay is under test), then solve
    if !m.tol {
        b = match b.with_tolerance(S::lit(0.5)) {
            Ok(b) => b,
            Err(_) => {
                S::prove("completion/valid-tolerance-accepted", S::b_const(false));
                return;
            }
        };
        m.tol = true;
    }
    match (m.t0, m.t1) {
        (None, None) => {
            b = b.with_initial_time(S::lit(0.0)).and_then(|b| b.with_ending_time(S::lit(100.0))).ok().unwrap();
            m.t0 = Some(S::lit(0.0));
            m.t1 = Some(S::lit(100.0));
        }
        (Some(s0), None) => {
            let e = s0 + S::lit(100.0);
            b = match b.with_ending_time(e) {
                Ok(b) => b,
                Err(_) => {
                    S::prove("completion/later-ending-time-accepted", S::b_const(false));
                    return;
                }
            };
            m.t1 = Some(e);
        }
        (None, Some(e)) => {
            let s0 = e - S::lit(100.0);
            b = match b.with_initial_time(s0) {
                Ok(b) => b,
                Err(_) => {
                    S::prove("completion/earlier-starting-time-accepted", S::b_const(false));
                    return;
                }
            };
            m.t0 = Some(s0);
        }
        _ => {}
    }
    let y0 = S::input("y0", -1.0, 1.0);
    let mut b = match b.with_initial_conditions_slice(&[y0]) {
        Ok(b) => b,
        Err(_) => {
            S::prove("initial-conditions-accepted", S::b_const(false));
            return;
        }
    };
    // a right-hand side at rest: only the times of the derivative calls are observed (no controller forks)
    b = b.with_derivative(fn_rhs::<S, Const<1>, _>(log.clone(), |_t: S, y: &[S]| y.iter().map(|_| S::lit(0.0)).collect()));
    let complete_steps = if kind == Kind::Euler { m.min.is_some() || m.max.is_some() } else { m.min.is_some() && m.max.is_some() };
    let complete = complete_steps && m.t0.is_some() && m.t1.is_some() && (m.tol || kind == Kind::Euler);
    match b.solve(()) {
        Err(e) => {
            S::prove("solve/missing-parameter-reported", S::b_const(!complete && variant(&e) == "MissingParameters"));
        }
        Ok(mut it) => {
            S::prove("solve/complete-valid-configuration-builds", S::b_const(complete));
            if !complete {
                return;
            }
            let (mn, mx, t0, t1) = (m.min.unwrap(), m.max.unwrap(), m.t0.unwrap(), m.t1.unwrap());
            // minimum <= maximum after any order of setters (observable: the first trial step is their mean)
            S::prove("model/minimum-at-most-maximum", S::b_le(mn, mx));
            // observe the first step through the derivative call times, when it is not clipped by the end
            let dt = (mn + mx) * S::lit(0.5);
            let room = S::b_lt(t0 + dt * S::lit(8.0), t1);
            if S::holds(room) || (!S::SYMBOLIC && S::holds(room)) {
                let _ = it.next();
                let calls = log.borrow();
                if calls.len() >= 2 && kind != Kind::Euler {
                    let frac = if kind == Kind::RK45 { 0.25 } else { 0.5 };
                    S::prove("solve/first-trial-step-is-mean-of-min-and-max", S::b_close(calls[1].t - calls[0].t, dt * S::lit(frac), S::lit(1e-9)));
                    S::prove("solve/starts-at-initial-time", S::b_eq(calls[0].t, t0));
                }
            }
        }
    }
}

fn builder<S: Sc>(kind: Kind, seq: Vec<BCall>) {
    let log = new_log::<S>();
    match kind {
        Kind::Euler => builder_seq::<S, Euler<S, Const<1>, (), Rhs<S, Const<1>>>>(kind, &seq, &log),
        Kind::RK45 => builder_seq::<S, RungeKutta45<S, Const<1>, (), Rhs<S, Const<1>>>>(kind, &seq, &log),
        Kind::RK23 => builder_seq::<S, RungeKutta23<S, Const<1>, (), Rhs<S, Const<1>>>>(kind, &seq, &log),
        Kind::Adams5 => builder_seq::<S, Adams5<S, Const<1>, (), Rhs<S, Const<1>>>>(kind, &seq, &log),
        Kind::Adams3 => builder_seq::<S, Adams3<S, Const<1>, (), Rhs<S, Const<1>>>>(kind, &seq, &log),
        Kind::BDF6 => builder_seq::<S, BDF6<S, Const<1>, (), Rhs<S, Const<1>>>>(kind, &seq, &log),
        Kind::BDF2 => builder_seq::<S, BDF2<S, Const<1>, (), Rhs<S, Const<1>>>>(kind, &seq, &log),
    }
}

/// static/dynamic dimension misuse for all seven builders
fn dimension_misuse<S: Sc>() {
    macro_rules! chk {
        ($name:expr, $T:ident) => {{
            let a = <$T<S, Const<2>, (), Rhs<S, Const<2>>> as IVPSolver<Const<2>>>::new_dyn(2);
            S::prove(concat!($name, "/new_dyn-on-static-dimension-is-DynamicOnStatic"), S::b_const(matches!(a, Err(IVPError::DynamicOnStatic))));
            let b = <$T<S, Dyn, (), Rhs<S, Dyn>> as IVPSolver<Dyn>>::new();
            S::prove(concat!($name, "/new-on-dynamic-dimension-is-StaticOnDynamic"), S::b_const(matches!(b, Err(IVPError::StaticOnDynamic))));
            let c = <$T<S, Const<2>, (), Rhs<S, Const<2>>> as IVPSolver<Const<2>>>::new();
            S::prove(concat!($name, "/new-on-static-dimension-ok"), S::b_const(c.is_ok()));
            let d = <$T<S, Dyn, (), Rhs<S, Dyn>> as IVPSolver<Dyn>>::new_dyn(3);
            S::prove(concat!($name, "/new_dyn-on-dynamic-dimension-ok"), S::b_const(d.is_ok()));
        }};
    }
    chk!("Euler", Euler);
    chk!("RK45", RungeKutta45);
    chk!("RK23", RungeKutta23);
    chk!("Adams5", Adams5);
    chk!("Adams3", Adams3);
    chk!("BDF6", BDF6);
    chk!("BDF2", BDF2);
}

/// the derivative function fails at call number k: exactly one Err item carrying that error, then nothing
fn user_error<S: Sc>(kind: Kind, k: usize, seed: i64) {
    let mut g = super::util::Lcg::new(seed * 37 + kind as i64);
    let dt_min = g.range_r(0.02, 0.06, 2);
    let c = Conf {
        t0: S::lit(0.0),
        // short horizon: a handful of steps (each Runge-Kutta attempt costs ~8 decisions with a root in the controller)
        t1: S::lit(dt_min * g.range_r(4.0, 7.0, 1)),
        dt_min: S::lit(dt_min),
        dt_max: S::lit(dt_min * 3.0),
        // Runge-Kutta controllers put the tolerance under a fourth root (minutes per harness when symbolic):
        // concrete tolerances there, a symbolic one (all accept/reject patterns) for the multistep solvers
        tol: if matches!(kind, Kind::RK45 | Kind::RK23) { S::lit([1e-2, 1e-5, 1e-7][k % 3]) } else { S::input("tol", 1e-6, 1.0) },
        y0: vec![S::lit(g.range_r(0.5, 1.5, 2))],
    };
    let (a, b) = (g.range_r(-1.5, -0.2, 2), g.range_r(-1.0, 1.0, 2));
    S::no_div_zero_forks();
    let log = new_log::<S>();
    let l2 = log.clone();
    let f: Rhs<S, Const<1>> = Box::new(move |t: S, y: &[S], _d: &mut ()| {
        let n = l2.borrow().len();
        l2.borrow_mut().push(Call { t, y: y.to_vec(), v: vec![] });
        if n == k {
            return Err(format!("user failure at call {}", n).into());
        }
        Ok(vec_d::<S, Const<1>>(&[S::lit(a) * y[0] + S::lit(b) * t]))
    });
    let run = run_d1(kind, &c, f, 60, &log, 3);
    S::reach("user-error-run");
    let failed = log.borrow().len() > k;
    if failed {
        S::reach("user-error-injected");
        let msg = format!("user failure at call {}", k);
        S::prove("user-error/surfaced-as-err-item-carrying-the-error", S::b_const(run.err.as_ref().map_or(false, |e| e.contains(&msg) && e.starts_with("UserError"))));
        S::prove("user-error/derivative-not-called-again", S::b_const(log.borrow().len() == k + 1));
        S::prove("user-error/iterator-yields-nothing-afterwards", S::b_const(run.extra_after_end == 0));
    } else {
        S::prove("no-injected-failure/no-error-reported-as-user-error", S::b_const(run.err.as_ref().map_or(true, |e| !e.starts_with("UserError"))));
        S::prove("completed/iterator-yields-nothing-afterwards", S::b_const(run.truncated || run.extra_after_end == 0));
    }
}

/// collect_vec returns the user's error
fn collect_vec_error<S: Sc>(kind: Kind, k: usize) {
    use bacon_sci::ivp::IVPIterator;
    let _ = std::marker::PhantomData::<IVPIterator<Const<1>, bacon_sci::ivp::EulerSolver<S, Const<1>, (), Rhs<S, Const<1>>>>>;
    let tol = S::input("tol", 1e-4, 1.0);
    let log = new_log::<S>();
    let l2 = log.clone();
    let f: Rhs<S, Const<1>> = Box::new(move |t: S, y: &[S], _d: &mut ()| {
        let n = l2.borrow().len();
        l2.borrow_mut().push(Call { t, y: y.to_vec(), v: vec![] });
        if n == k {
            return Err(format!("user failure at call {}", n).into());
        }
        Ok(vec_d::<S, Const<1>>(&[-y[0]]))
    });
    macro_rules! go {
        ($T:ident) => {{
            let it = <$T<S, Const<1>, (), Rhs<S, Const<1>>> as IVPSolver<Const<1>>>::new()
                .and_then(|b| b.with_tolerance(tol))
                .and_then(|b| b.with_minimum_dt(S::lit(0.05)))
                .and_then(|b| b.with_maximum_dt(S::lit(0.1)))
                .and_then(|b| b.with_initial_time(S::lit(0.0)))
                .and_then(|b| b.with_ending_time(S::lit(0.55)))
                .and_then(|b| b.with_initial_conditions_slice(&[S::lit(1.0)]))
                .map(|b| b.with_derivative(f))
                .and_then(|b| b.solve(()));
            match it {
                Ok(it) => it.collect_vec().map(|v| v.len()).map_err(|e| format!("{:?}", e)),
                Err(e) => Err(format!("build: {:?}", e)),
            }
        }};
    }
    let res: Result<usize, String> = match kind {
        Kind::Euler => go!(Euler),
        Kind::RK45 => go!(RungeKutta45),
        Kind::RK23 => go!(RungeKutta23),
        Kind::Adams5 => go!(Adams5),
        Kind::Adams3 => go!(Adams3),
        Kind::BDF6 => go!(BDF6),
        Kind::BDF2 => go!(BDF2),
    };
    let failed = log.borrow().len() > k;
    if failed {
        let msg = format!("user failure at call {}", k);
        S::prove("collect_vec/returns-the-user-error", S::b_const(res.as_ref().err().map_or(false, |e| e.contains(&msg))));
    }
}

fn sequences(len: usize) -> Vec<Vec<BCall>> {
    let alphabet = [BCall::Tol, BCall::Min, BCall::Max, BCall::T0, BCall::T1];
    let mut out: Vec<Vec<BCall>> = vec![vec![]];
    let mut all = vec![vec![]];
    for _ in 0..len {
        let mut next = vec![];
        for s in &out {
            for a in alphabet.iter() {
                let mut t = s.clone();
                t.push(*a);
                next.push(t);
            }
        }
        all.extend(next.iter().cloned());
        out = next;
    }
    all
}

pub fn run(pr: &mut PropRun, t: &Tier) {
    pr.funcs(&[
        "all seven builders: new/new_dyn/with_tolerance/with_minimum_dt/with_maximum_dt/with_initial_time/with_ending_time/with_initial_conditions_slice/with_derivative/solve",
        "Dimension::{dim,dim_dyn}, From<DimensionError>, From<UserError>",
        "IVPIterator::{next,collect_vec} and every stepper's error path",
    ]);
    let len = if t.thorough { 5 } else { 3 };
    pr.bound(&format!("every sequence of 0..{} builder calls over {{tolerance, min step, max step, start, end}} with UNCONSTRAINED symbolic values in [-5,5] (valid / zero / negative / reversed are regions of one variable), compared with a reference model of the builder contract (exhaustive small scope)", len));
    pr.bound("user errors: seeded concrete linear problem, symbolic tolerance (all accept/reject patterns), failure injected at call k for k = 0..15 (quick) / 0..47 (thorough), three further next() calls after the failure");
    pr.outside("Euler's with_tolerance is a documented no-op and Euler keeps one averaged step: the tolerance-rejection and min<=max clauses are asserted for the six adaptive builders only");
    let mut jobs: Vec<super::Job> = vec![];
    let seqs = sequences(len);
    for kind in Kind::ALL {
        // longest sequences for two representative builders in the quick tier (the builder code is shared per family)
        for s in seqs.iter().cloned() {
            if !t.thorough && s.len() == len && !matches!(kind, Kind::Euler | Kind::RK45 | Kind::Adams3 | Kind::BDF2) {
                continue;
            }
            let mut cfg = t.cfg(&format!("C06:builder({},{:?})", kind.name(), s));
            cfg.validate_paths = 1;
            crate::job!(jobs, cfg, builder, kind, s);
        }
    }
    let cfg = t.cfg("C06:dimension-misuse");
    crate::job!(jobs, cfg, dimension_misuse);
    let kmax = if t.thorough { 48 } else { 16 };
    for kind in Kind::ALL {
        for k in 0..kmax {
            let mut cfg = t.cfg(&format!("C06:user-error({},k={})", kind.name(), k));
            cfg.validate_paths = 1;
            cfg.max_paths = 60;
            cfg.max_decisions = 400;
            crate::job!(jobs, cfg, user_error, kind, k, t.seed);
        }
        for k in [0usize, 3, 7] {
            let mut cfg = t.cfg(&format!("C06:collect_vec({},k={})", kind.name(), k));
            cfg.max_paths = 40;
            cfg.max_decisions = 400;
            crate::job!(jobs, cfg, collect_vec_error, kind, k);
        }
    }
    pr.bound(&format!("{} harness instances", jobs.len()));
    super::run_jobs(pr, jobs, t.threads);
}
