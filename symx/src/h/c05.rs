//! C05 — adaptive IVP solvers finish smooth problems with order-appropriate work.
//! Decided as the one-step controller contract the work bound is a corollary of.
use super::c03::{bogacki_shampine23, fehlberg45};
use super::ivp::*;
use super::Tier;
use crate::ev::PropRun;
use crate::run_h;
use crate::sym::Sc;
use nalgebra::Const;

const YB: f64 = 5.0;
const VB: f64 = 5.0;

/// Runge-Kutta controller: a rejected attempt is retried with a step between 0.1 and 0.9 of the rejected one
/// (geometric progress: no unbounded run of rejections), growth after acceptance is at most 4x and capped by dt_max,
/// and every attempt costs exactly `stages` derivative evaluations
fn rk_controller<S: Sc>(kind: Kind, ratio: f64) {
    let tb = if kind == Kind::RK45 { fehlberg45() } else { bogacki_shampine23() };
    let o = tb.c.len();
    let c = conf_inputs::<S>(1, YB);
    assume_valid(&c);
    S::assume(S::b_le(c.dt_max, c.dt_min * S::lit(ratio)));
    // far from the end: no clipping of the steps under observation
    S::assume(S::b_le(c.t0 + c.dt_max * S::lit(12.0), c.t1));
    let log = new_log::<S>();
    let run = run_d1(kind, &c, tape_rhs(log.clone(), VB, None), 2, &log, 0);
    let calls = log.borrow();
    let mut prev_t = c.t0;
    let mut ix = 0usize;
    let eps = S::lit(1e-9);
    let mut last_h: Option<S> = None;
    for item in run.items.iter() {
        let ncalls = item.calls - ix;
        S::prove("rk/evaluations-per-attempt-equal-stage-count", S::b_const(ncalls % o == 0 && ncalls > 0));
        if ncalls % o != 0 || ncalls == 0 {
            return;
        }
        let attempts = ncalls / o;
        for a in 0..attempts {
            let ch = &calls[ix + a * o..ix + (a + 1) * o];
            let h = ch[tb.unit_stage].t - prev_t;
            if let Some(hp) = last_h {
                if a > 0 {
                    S::reach("rk/retry-after-rejection");
                    // previous attempt of this step was rejected
                    S::prove_m("rk/retry-step-at-most-0.9-of-rejected-step", S::b_le(h, hp * S::lit(0.9) + eps), S::b_gt(h, hp * S::lit(0.95)));
                    S::prove("rk/retry-step-at-least-0.1-of-rejected-step", S::b_le(hp * S::lit(0.1) - eps, h));
                } else {
                    S::reach("rk/step-after-acceptance");
                    S::prove("rk/growth-after-acceptance-at-most-4x", S::b_le(h, hp * S::lit(4.0) + eps));
                    S::prove("rk/step-never-exceeds-dt-max", S::b_le(h, c.dt_max + eps));
                }
            } else {
                S::prove("rk/first-trial-step-is-mean-of-bounds", S::b_close(h, (c.dt_min + c.dt_max) * S::lit(0.5), eps));
            }
            last_h = Some(h);
        }
        ix = item.calls;
        prev_t = item.t;
    }
    if let Some(e) = &run.err {
        // the only error a valid smooth problem may produce: the controller asked for a step below dt_min
        S::prove("rk/only-minimum-step-error", S::b_const(e.starts_with("MinimumTimeDeltaExceeded")));
    }
}

/// solutions at rest (f = 0) and solutions that are straight lines (f = const): every adaptive solver completes
/// without an error and without rejections, and lands on the end time
fn at_rest<S: Sc>(kind: Kind, constant_slope: bool, horizon: f64) {
    let c = conf_inputs::<S>(1, YB);
    assume_valid(&c);
    S::assume(S::b_le(c.dt_max, c.dt_min * S::lit(3.0)));
    S::assume(S::b_le(c.t1 - c.t0, c.dt_min * S::lit(horizon)));
    let slope = if constant_slope { S::input("slope", -VB, VB) } else { S::lit(0.0) };
    let log = new_log::<S>();
    let run = run_d1(kind, &c, fn_rhs::<S, Const<1>, _>(log.clone(), move |_t: S, y: &[S]| y.iter().map(|_| slope).collect()), 80, &log, 0);
    S::reach("at-rest");
    S::prove("completes-without-error", S::b_const(run.err.is_none() && run.build_err.is_none()));
    if run.err.is_none() && run.ended {
        S::prove("reaches-the-end-time", S::b_const(!run.items.is_empty()));
        if let Some(last) = run.items.last() {
            S::prove("ends-at-the-end-time", S::b_close(last.t, c.t1, S::lit(1e-12)));
            S::prove("state-follows-the-exact-straight-line", S::b_close(last.y[0], c.y0[0] + slope * (c.t1 - c.t0), S::lit(1e-9)));
        }
        // no wasted work: number of derivative evaluations bounded by a fixed multiple of the number of steps
        let per_step = match kind {
            Kind::RK45 => 6,
            Kind::RK23 => 4,
            _ => 40,
        };
        S::prove("work-proportional-to-steps", S::b_const(run.calls_at_end <= per_step * (run.items.len() + 2) + 20));
    }
}

/// estimator order on the linear test equation y' = lambda*y: with tol >= K |lambda y| |lambda h|^p the first trial step
/// (of size h, dt_min = dt_max = h) is accepted -- the estimate is O(h^p), not larger
fn estimator_order<S: Sc>(kind: Kind, fixed: Option<(f64, f64)>) {
    let (p, k): (i32, f64) = match kind {
        Kind::RK45 => (4, 1.0),
        Kind::RK23 => (2, 1.0),
        Kind::Adams5 => (4, 4.0),
        Kind::Adams3 => (2, 4.0),
        Kind::BDF6 => (6, 40.0),
        _ => (2, 4.0),
    };
    // (concrete (lambda, h) members make every query linear in (y0, tol): all six solvers fit the quick tier)
    let (lambda, h) = match fixed {
        Some((l, hh)) => (S::lit(l), S::lit(hh)),
        None => (S::input("lambda", -2.0, 2.0), S::input("h", 1e-2, 0.25)),
    };
    let y0 = S::input("y0", -YB, YB);
    let t0 = S::input("t0", -1.0, 1.0);
    let tol = S::input("tol", 1e-10, 10.0);
    let z = lambda * h;
    let mut zp = S::lit(1.0);
    for _ in 0..p {
        zp = zp * z;
    }
    // BDF compares two solutions (absolute difference), the others an error per unit step
    let scale = if matches!(kind, Kind::BDF2 | Kind::BDF6) { (y0 * zp).sabs() } else { (lambda * y0 * zp).sabs() };
    S::assume(S::b_le(scale * S::lit(k) + S::lit(1e-9), tol));
    S::no_div_zero_forks();
    let c = Conf { t0, t1: t0 + S::lit(100.0), dt_min: h, dt_max: h, tol, y0: vec![y0] };
    let log = new_log::<S>();
    let items = kind.startup() + 1;
    let run = run_d1(kind, &c, fn_rhs::<S, Const<1>, _>(log.clone(), move |_t: S, y: &[S]| y.iter().map(|v| lambda * *v).collect()), items, &log, 0);
    S::reach("estimator-order");
    S::prove_m("estimator/first-step-accepted-when-tolerance-dominates-h^p", S::b_const(run.err.is_none() && run.items.len() == items), S::b_const(run.err.is_some()));
}

pub fn run(pr: &mut PropRun, t: &Tier) {
    pr.funcs(&["ivp::rk::RungeKuttaSolver::step (controller)", "ivp::adams::AdamsSolver::step", "ivp::bdf::BDFSolver::{step,secant,jac_finite_diff}", "ivp::IVPIterator::next"]);
    pr.bound("controller contract per step from an arbitrary symbolic state and configuration (arbitrary right-hand side for the Runge-Kutta controllers): retry factor in [0.1,0.9], growth <= 4x, cap at dt_max, stage count per attempt; solutions at rest and straight-line solutions for all six adaptive solvers on complete runs of short horizons; estimator order on y' = lambda*y (first trial step accepted whenever tol >= K |lambda y| |lambda h|^p): y0, tol, t0 symbolic with 5 seeded concrete (lambda, h) pairs (|lambda h| from 0.25 down to 0.002) for all six solvers; lambda and h symbolic too for RK23 (quick) and all six (thorough)");
    pr.outside("the global evaluation count over long intervals (a pen-and-paper corollary of the per-step contract: with retry factor <= 0.9 and estimator order p the number of attempts is within a fixed factor of length * tol^(-1/p)); non-linear problems");
    let ratio = if t.thorough { 3.0 } else { 2.0 };
    for kind in [Kind::RK45, Kind::RK23] {
        let mut cfg = t.cfg(&format!("C05:rk-controller({})", kind.name()));
        cfg.max_decisions = 60;
        run_h!(pr, cfg, rk_controller, kind, ratio);
    }
    for kind in Kind::ADAPTIVE {
        for slope in [false, true] {
            let h = kind.startup() as f64 + 3.5;
            let mut cfg = t.cfg(&format!("C05:{}({},H={})", if slope { "straight-line" } else { "at-rest" }, kind.name(), h));
            cfg.max_decisions = 500;
            run_h!(pr, cfg, at_rest, kind, slope, h);
        }
    }
    for kind in Kind::ADAPTIVE {
        // (the fourth- and sixth-order estimates are degree >= 5 polynomials in (lambda, h, y): minutes for nlsat)
        if !t.thorough && kind != Kind::RK23 {
            continue;
        }
        let mut cfg = t.cfg(&format!("C05:estimator-order({})", kind.name()));
        cfg.max_decisions = 300;
        cfg.query_timeout_s = if t.thorough { 120.0 } else { 30.0 };
        run_h!(pr, cfg, estimator_order, kind, None);
    }
    let mut jobs: Vec<super::Job> = vec![];
    for kind in Kind::ADAPTIVE {
        for (l, h) in [(1.0, 0.25), (-2.0, 0.0625), (-1.25, 0.015625), (0.75, 0.00390625), (2.0, 0.0009765625)] {
            let mut cfg = t.cfg(&format!("C05:estimator-order({},lambda={},h={})", kind.name(), l, h));
            cfg.max_decisions = 300;
            crate::job!(jobs, cfg, estimator_order, kind, Some((l, h)));
        }
    }
    super::run_jobs(pr, jobs, t.threads);
}
