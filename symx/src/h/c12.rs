//! C12 — polynomial division returns quotient and remainder of a valid Euclidean step.
use super::util::*;
use super::Tier;
use crate::ev::PropRun;
use crate::run_h;
use crate::sym::Sc;
use bacon_sci::polynomial::Polynomial;
use num_complex::Complex;

const CB: f64 = 10.0;

fn poly_of<S: Sc>(c: &[S]) -> Polynomial<S> {
    let rev: Vec<S> = c.iter().rev().cloned().collect();
    Polynomial::from_slice(&rev)
}
fn coefs<S: Sc>(p: &Polynomial<S>, n: usize) -> Vec<S> {
    (0..n).map(|k| p.get_coefficient(k)).collect()
}
fn conv<S: Sc>(a: &[S], b: &[S], k: usize) -> S {
    let mut acc = S::lit(0.0);
    for i in 0..a.len() {
        if k >= i && k - i < b.len() {
            acc = acc + a[i] * b[k - i];
        }
    }
    acc
}

/// dividend = quotient * divisor + remainder, deg(remainder) < deg(divisor)
fn divide<S: Sc>(lp: usize, ld: usize, concrete_d: Option<i64>, exact_multiple: bool) {
    let d: Vec<S> = match concrete_d {
        None => inputs::<S>("d", ld, -CB, CB),
        Some(seed) => {
            let mut g = Lcg::new(seed);
            (0..ld).map(|i| S::lit(if i + 1 == ld { g.range_r(0.5, 4.0, 2) } else { g.range_r(-4.0, 4.0, 2) })).collect()
        }
    };
    S::assume(S::b_ge(d[ld - 1].sabs(), S::lit(0.1)));
    let p: Vec<S> = if exact_multiple {
        // dividend built as q0 * d exactly (harness-side algebra)
        let q0 = inputs::<S>("q", lp, -3.0, 3.0);
        // every quotient coefficient non-negligible: no intermediate remainder has a leading coefficient inside
        // the zero tolerance (otherwise the dropped term leaves a remainder of size tol*|d|/|d_lead| per step)
        for qk in q0.iter() {
            S::assume(S::b_ge(qk.sabs(), S::lit(0.1)));
        }
        (0..lp + ld - 1).map(|k| conv(&q0, &d, k)).collect()
    } else {
        let p = inputs::<S>("p", lp, -CB, CB);
        S::assume(S::b_ge(p[lp - 1].sabs(), S::lit(0.1)));
        p
    };
    let n = p.len();
    let res = poly_of(&p).divide(&poly_of(&d));
    S::prove("division-by-nonzero-polynomial-is-ok", S::b_const(res.is_ok()));
    let (q, r) = match res {
        Ok(x) => x,
        Err(_) => return,
    };
    S::reach("divide");
    let qc = coefs(&q, n + 1);
    let rc = coefs(&r, n + 1);
    // reconstruction, coefficient-wise; backward error bound eps*(|q||d|+|p|) + zero tolerance (1e-10 per elimination step)
    let tol = S::lit(1e-8);
    for k in 0..n + 1 {
        let want = if k < n { p[k] } else { S::lit(0.0) };
        let got = conv(&qc, &d, k) + rc[k];
        S::prove_m("dividend-equals-quotient-times-divisor-plus-remainder", S::b_close(got, want, tol), S::b_gt((got - want).sabs(), S::lit(1e-4)));
    }
    if ld >= 2 {
        S::prove("remainder-degree-below-divisor-degree", S::b_const(r.order() < ld - 1 || (r.order() == 0 && ld - 1 == 0) || r.order() + 1 < ld));
    }
    if n >= ld {
        S::prove("quotient-degree", S::b_const(q.order() == n - ld));
    } else {
        S::prove("quotient-zero-when-divisor-degree-higher", S::b_le(q.get_coefficient(0).sabs(), S::lit(1e-12)));
        S::prove("quotient-order-zero-when-divisor-degree-higher", S::b_const(q.order() == 0));
    }
    if exact_multiple {
        for k in 0..ld {
            // a leading remainder coefficient below the zero tolerance (1e-10) is dropped together with
            // its multiple of the divisor: |r| <= steps * tol * |d|/|d_lead| <= steps * 1e-10 * 100
            S::prove("exact-multiple-has-zero-remainder", S::b_le(rc[k].sabs(), S::lit(1e-8)));
        }
    }
    S::control("divide");
}


/// the same Euclidean identity under the ROUNDING MODEL (every +,-,*,/ of the division returns its exact result times
/// (1+delta), |delta| <= 2^-53): large coefficients make the rounding residue of an eliminated leading term exceed the
/// zero tolerance, the same power is then visited twice and the quotient must ACCUMULATE the correction.
/// Dividend symbolic with coefficients up to 1e8, divisor seeded concrete (non-monic), default zero tolerance 1e-10.
fn divide_rounded<S: Sc>(lp: usize, ld: usize, seed: i64) {
    let mut g = Lcg::new(seed);
    let d: Vec<S> = (0..ld).map(|i| S::lit(if i + 1 == ld { 3.0 } else { g.range_r(-4.0, 4.0, 2) })).collect();
    // seeded sign pattern of the dividend's coefficients (magnitudes symbolic in [0.1, 1e8]): most intermediate
    // results then have a definite sign and their rounding bound is linear
    let p: Vec<S> = (0..lp).map(|k| if g.unit() < 0.5 { S::input(&format!("p{}", k), 0.1, 1e8) } else { S::input(&format!("p{}", k), -1e8, -0.1) }).collect();
    S::rounding(true);
    let res = poly_of(&p).divide(&poly_of(&d));
    S::rounding(false);
    S::prove("division-by-nonzero-polynomial-is-ok", S::b_const(res.is_ok()));
    let (q, r) = match res {
        Ok(x) => x,
        Err(_) => return,
    };
    S::reach("divide-rounded");
    let n = p.len();
    let qc = coefs(&q, n + 1);
    let rc = coefs(&r, n + 1);
    for k in 0..n + 1 {
        let want = if k < n { p[k] } else { S::lit(0.0) };
        let got = conv(&qc, &d, k) + rc[k];
        // backward error: a few units of roundoff of (|q||d| + |p|) per elimination step, plus the zero tolerance
        let mut scale = want.sabs() + rc[k].sabs();
        for i in 0..qc.len() {
            if k >= i && k - i < d.len() {
                scale = scale + (qc[i] * d[k - i]).sabs();
            }
        }
        let bound = scale * S::lit(64.0 * 2.220446049250313e-16 * (n as f64 + 1.0)) + S::lit(1e-8);
        S::prove_m("dividend-equals-quotient-times-divisor-plus-remainder-up-to-roundoff", S::b_le((got - want).sabs(), bound), S::b_gt((got - want).sabs(), bound * S::lit(100.0) + S::lit(1e-3)));
    }
    if ld >= 2 {
        S::prove("remainder-degree-below-divisor-degree", S::b_const(r.order() + 1 < ld || r.order() == 0));
    }
    S::prove("quotient-degree", S::b_const(n < ld || q.order() == n - ld));
}

/// constant divisor scales; zero divisor is an error
fn constant_divisor<S: Sc>(lp: usize) {
    let p = inputs::<S>("p", lp, -CB, CB);
    S::assume(S::b_ge(p[lp - 1].sabs(), S::lit(0.1)));
    let c = S::input("c", 0.1, CB);
    let sign = S::input("sg", -1.0, 1.0);
    S::assume(S::b_eq(sign * sign, S::lit(1.0)));
    let cv = c * sign;
    let (q, r) = poly_of(&p).divide(&poly_of(&[cv])).expect("constant divisor");
    for k in 0..lp {
        S::prove("constant-divisor-scales-coefficients", S::b_close(q.get_coefficient(k) * cv, p[k], S::lit(1e-9)));
    }
    S::prove("constant-divisor-zero-remainder", S::b_and(S::b_const(r.order() == 0), S::b_le(r.get_coefficient(0).sabs(), S::lit(1e-12))));
    let z = poly_of(&p).divide(&poly_of(&[S::lit(0.0)]));
    S::prove("zero-divisor-is-an-error", S::b_const(z.is_err()));
    let z2 = poly_of(&p).divide(&Polynomial::new());
    S::prove("zero-polynomial-divisor-is-an-error", S::b_const(z2.is_err()));
}

fn divide_complex<S: Sc>(lp: usize, ld: usize, seed: i64) {
    let pr_ = inputs::<S>("pr", lp, -CB, CB);
    let pi_ = inputs::<S>("pi", lp, -CB, CB);
    S::assume(S::b_ge(pr_[lp - 1].sabs(), S::lit(0.1)));
    let mut g = Lcg::new(seed);
    let d: Vec<Complex<S>> = (0..ld).map(|i| Complex::new(S::lit(if i + 1 == ld { g.range_r(0.5, 3.0, 2) } else { g.range_r(-3.0, 3.0, 2) }), S::lit(g.range_r(-3.0, 3.0, 2)))).collect();
    let p: Vec<Complex<S>> = (0..lp).map(|k| Complex::new(pr_[k], pi_[k])).collect();
    let mk = |v: &[Complex<S>]| {
        let rev: Vec<Complex<S>> = v.iter().rev().cloned().collect();
        Polynomial::from_slice(&rev)
    };
    let (q, r) = match mk(&p).divide(&mk(&d)) {
        Ok(x) => x,
        Err(_) => {
            S::prove("complex-division-is-ok", S::b_const(false));
            return;
        }
    };
    S::reach("divide-complex");
    let tol = S::lit(1e-8);
    for k in 0..lp + 1 {
        let (mut re, mut im) = (r.get_coefficient(k).re, r.get_coefficient(k).im);
        for i in 0..=k {
            if k - i < ld {
                let qi = q.get_coefficient(i);
                let dj = d[k - i];
                re = re + qi.re * dj.re - qi.im * dj.im;
                im = im + qi.re * dj.im + qi.im * dj.re;
            }
        }
        let (wr, wi) = if k < lp { (pr_[k], pi_[k]) } else { (S::lit(0.0), S::lit(0.0)) };
        S::prove("complex-reconstruction-re", S::b_close(re, wr, tol));
        S::prove("complex-reconstruction-im", S::b_close(im, wi, tol));
    }
    S::prove("complex-remainder-degree-below-divisor-degree", S::b_const(r.order() + 1 < ld || ld == 1));
}

pub fn run(pr: &mut PropRun, t: &Tier) {
    pr.funcs(&["Polynomial::divide", "Polynomial::{add_assign,sub_assign,purge_leading,with_tolerance,from_iter}"]);
    pr.bound("dividend and divisor fully symbolic (|lead| >= 0.1, box [-10,10]) up to degree 6/3 (quick) 8/4 (thorough); symbolic dividend x seeded concrete divisor up to degree 12/8 (quick) 40/32 (thorough; at most 9 elimination steps); exact multiples q*d with symbolic q; constant and zero divisors; complex dividend x concrete complex divisor");
    pr.bound("ROUNDING MODEL harnesses (every +,-,*,/ inside divide returns exact*(1+delta), |delta| <= 2^-53, delta a function of the exact result): dividend symbolic with coefficients up to 1e8, seeded concrete non-monic divisor, lengths 3/2 and 4/3 (quick), also 4/2 (thorough): Euclidean identity up to 64 (n+1) eps (|q||d|+|p|+|r|) + 1e-8");
    pr.outside("rounding of symbolic operations in the other harnesses (exact arithmetic, tolerance 1e-8); overflow, underflow and subnormal results in the rounding-model harnesses");
    let sym_sizes: Vec<(usize, usize)> = if t.thorough { vec![(2, 2), (4, 2), (5, 3), (7, 4), (9, 5), (2, 4)] } else { vec![(2, 2), (4, 2), (5, 3), (7, 4), (2, 4)] };
    for (lp, ld) in sym_sizes {
        let mut cfg = t.cfg(&format!("C12:divide(len {}/{})", lp, ld));
        cfg.max_decisions = 300;
        run_h!(pr, cfg, divide, lp, ld, None, false);
    }
    // every elimination step forks on "leading remainder coefficient negligible?": 2^(steps) paths
    let conc: Vec<(usize, usize)> = if t.thorough { vec![(9, 4), (13, 9), (21, 13), (41, 33), (5, 9)] } else { vec![(9, 4), (13, 9), (5, 9)] };
    for (lp, ld) in conc {
        let mut cfg = t.cfg(&format!("C12:divide(len {}/{},concrete-divisor)", lp, ld));
        cfg.max_decisions = 600;
        run_h!(pr, cfg, divide, lp, ld, Some(t.seed * 13 + lp as i64), false);
    }
    for (lq, ld) in [(2usize, 2usize), (3, 3)] {
        let mut cfg = t.cfg(&format!("C12:exact-multiple(q len {}, d len {})", lq, ld));
        cfg.max_decisions = 300;
        run_h!(pr, cfg, divide, lq, ld, None, true);
    }
    for (lq, ld) in [(6usize, 4usize)] {
        let mut cfg = t.cfg(&format!("C12:exact-multiple(q len {}, d len {},concrete-divisor)", lq, ld));
        cfg.max_decisions = 300;
        run_h!(pr, cfg, divide, lq, ld, Some(t.seed * 7 + 3), true);
    }
    for (lp, ld) in (if t.thorough { vec![(3usize, 2usize), (4, 2), (4, 3)] } else { vec![(3usize, 2usize), (4, 3)] }) {
        let mut cfg = t.cfg(&format!("C12:divide-rounded(len {}/{})", lp, ld));
        cfg.max_decisions = 400;
        cfg.max_paths = 400;
        run_h!(pr, cfg, divide_rounded, lp, ld, t.seed * 3 + lp as i64);
    }
    for lp in [1usize, 4] {
        run_h!(pr, t.cfg(&format!("C12:constant-divisor(len {})", lp)), constant_divisor, lp);
    }
    for (lp, ld) in [(4usize, 2usize), (6, 3)] {
        let mut cfg = t.cfg(&format!("C12:divide-complex(len {}/{})", lp, ld));
        cfg.max_decisions = 300;
        run_h!(pr, cfg, divide_complex, lp, ld, t.seed * 5 + lp as i64);
    }
}
