//! C10 — every tabulated quadrature rule has its full degree of exactness.
//!
//! The tables are private; each rule is observed as the integrators consume it: a *stateful*
//! integrand steers the two-consecutive-agreement exit of the real integrator to a chosen row R
//! (rows before R see 0/1 patterns that keep the stopping rule from firing, row R sees eps*p(x)),
//! so the value returned by the public function is eps * Q_R[p] for the rule of row R.
use super::util::*;
use super::Tier;
use crate::ev::PropRun;
use crate::sym::Sc;
use bacon_sci::integrate::{integrate, integrate_chebyshev, integrate_chebyshev_second, integrate_gaussian, integrate_hermite, integrate_laguerre};
use std::cell::RefCell;

#[derive(Clone, Copy, PartialEq, Eq, Debug)]
pub enum Fam {
    Legendre,
    Chebyshev1,
    Chebyshev2,
    Hermite,
    Laguerre,
}

impl Fam {
    pub fn name(self) -> &'static str {
        match self {
            Fam::Legendre => "legendre",
            Fam::Chebyshev1 => "chebyshev1",
            Fam::Chebyshev2 => "chebyshev2",
            Fam::Hermite => "hermite",
            Fam::Laguerre => "laguerre",
        }
    }
    pub fn rows(self) -> usize {
        match self {
            Fam::Legendre => 12,
            Fam::Chebyshev1 | Fam::Chebyshev2 => 100,
            Fam::Hermite => 27,
            Fam::Laguerre => 12,
        }
    }
}

fn ln_gamma(x: f64) -> f64 {
    // Lanczos (g=7, n=9), accurate to ~1e-14 for x > 0
    const G: f64 = 7.0;
    const C: [f64; 9] = [
        0.99999999999980993,
        676.5203681218851,
        -1259.1392167224028,
        771.32342877765313,
        -176.61502916214059,
        12.507343278686905,
        -0.13857109526572012,
        9.9843695780195716e-6,
        1.5056327351493116e-7,
    ];
    let x = x - 1.0;
    let mut a = C[0];
    let t = x + G + 0.5;
    for (i, c) in C.iter().enumerate().skip(1) {
        a += c / (x + i as f64);
    }
    0.5 * (2.0 * std::f64::consts::PI).ln() + (x + 0.5) * t.ln() - t + a.ln()
}

/// exact moment of the weight function (f64 evaluation of the closed form, relative error ~1e-15)
pub fn moment(f: Fam, k: usize) -> f64 {
    let odd = k % 2 == 1;
    let pi = std::f64::consts::PI;
    match f {
        Fam::Legendre => {
            if odd {
                0.0
            } else {
                2.0 / (k as f64 + 1.0)
            }
        }
        Fam::Chebyshev1 => {
            if odd {
                0.0
            } else {
                // pi * C(k, k/2) / 2^k  computed as a running product
                let mut v = pi;
                for j in 1..=(k / 2) {
                    v *= (2 * j - 1) as f64 / (2 * j) as f64;
                }
                v
            }
        }
        Fam::Chebyshev2 => {
            if odd {
                0.0
            } else {
                let mut v = pi / 2.0;
                for j in 1..=(k / 2) {
                    v *= (2 * j - 1) as f64 / (2 * j) as f64;
                }
                v / (k as f64 / 2.0 + 1.0)
            }
        }
        Fam::Hermite => {
            if odd {
                0.0
            } else {
                let mut v = pi.sqrt();
                for j in 1..=(k / 2) {
                    v *= (2 * j - 1) as f64 / 2.0;
                }
                v
            }
        }
        Fam::Laguerre => {
            let mut v = 1.0;
            for j in 1..=k {
                v *= j as f64;
            }
            v
        }
    }
}

/// absolute moment (scale of the k-th monomial under the weight)
pub fn abs_moment(f: Fam, k: usize) -> f64 {
    let kf = k as f64;
    match f {
        Fam::Legendre => 2.0 / (kf + 1.0),
        Fam::Chebyshev1 => (0.5 * std::f64::consts::PI.ln() + ln_gamma((kf + 1.0) / 2.0) - ln_gamma(kf / 2.0 + 1.0)).exp(),
        Fam::Chebyshev2 => (0.5 * std::f64::consts::PI.ln() - 2f64.ln() + ln_gamma((kf + 1.0) / 2.0) - ln_gamma(kf / 2.0 + 2.0)).exp(),
        Fam::Hermite => ln_gamma((kf + 1.0) / 2.0).exp(),
        Fam::Laguerre => moment(Fam::Laguerre, k),
    }
}

pub fn call_integrator<S: Sc, F: FnMut(S) -> S>(fam: Fam, f: F, tol: S) -> Result<S, String> {
    match fam {
        // on [-1,1] the affine map of integrate_gaussian is the identity and its core tolerance is tol/4
        Fam::Legendre => integrate_gaussian(S::lit(-1.0), S::lit(1.0), f, tol * S::lit(4.0)),
        Fam::Chebyshev1 => integrate_chebyshev(f, tol),
        Fam::Chebyshev2 => integrate_chebyshev_second(f, tol),
        Fam::Hermite => integrate_hermite(f, tol),
        Fam::Laguerre => integrate_laguerre(f, tol),
    }
}

const EPS: f64 = 1.0 / 1024.0;
const TOL: f64 = 0.5;

/// Run the integrator so that it returns at row R >= 1.  Rows R-2 and R-1 see the constant 1 (equal
/// estimates: the "previous error" is small), row R-3 sees 0 and the rows before alternate 1/0 (every
/// earlier pair of consecutive estimates differs by the full weight sum, so the stopping rule cannot fire),
/// row R sees base + eps*g(x).  Returns (value, abscissae of row R, total calls); the value is
/// Q_R[base] + eps*Q_R[g] with base = 1 (R >= 2) or 0 (R = 1).
fn extract_row<S: Sc>(fam: Fam, r: usize, g: &dyn Fn(S) -> S) -> (Result<S, String>, Vec<S>, usize) {
    let calls = RefCell::new(0usize);
    let xs: RefCell<Vec<S>> = RefCell::new(vec![]);
    let f = |x: S| -> S {
        let e = *calls.borrow();
        *calls.borrow_mut() += 1;
        // row of evaluation e: row j has j+1 evaluations
        let mut row = 0usize;
        let mut acc = 0usize;
        while acc + row + 1 <= e {
            acc += row + 1;
            row += 1;
        }
        if row == r {
            xs.borrow_mut().push(x);
            let base = if r >= 2 { S::lit(1.0) } else { S::lit(0.0) };
            base + S::lit(EPS) * g(x)
        } else if r >= 2 && (row + 1 == r || row + 2 == r) {
            S::lit(1.0)
        } else if r >= 3 && row + 3 <= r && (r - 3 - row) % 2 == 1 {
            S::lit(1.0)
        } else {
            S::lit(0.0)
        }
    };
    let out = call_integrator(fam, f, S::lit(TOL));
    let n = *calls.borrow();
    (out, xs.into_inner(), n)
}

/// exactness of the rule in row R (n = R+1 points) on all polynomials of degree <= 2n-1, plus node/weight sanity
fn row_exactness<S: Sc>(fam: Fam, r: usize) {
    let n = r + 1;
    let deg = 2 * n - 1;
    // coefficients scaled so that every monomial contributes O(1) to the integral
    let c: Vec<S> = (0..=deg).map(|k| S::input(&format!("c{}", k), -1.0, 1.0)).collect();
    let scale: Vec<f64> = (0..=deg).map(|k| 1.0 / abs_moment(fam, k)).collect();
    let cs = c.clone();
    let sc2 = scale.clone();
    let p = move |x: S| {
        let mut acc = S::lit(0.0);
        for k in (0..=deg).rev() {
            acc = acc * x + cs[k] * S::lit(sc2[k]);
        }
        acc
    };
    let (out, xs, ncalls) = extract_row::<S>(fam, r, &p);
    S::reach("row");
    S::prove("integrator-returns-at-the-steered-row", S::b_const(out.is_ok()));
    S::prove("rule-at-position-n-has-exactly-n-points", S::b_const(ncalls == (r + 1) * (r + 2) / 2 && xs.len() == n));
    // distinct nodes inside the domain (concrete facts of the recorded abscissae)
    let xv: Vec<f64> = xs.iter().filter_map(|x| x.concrete()).collect();
    let mut distinct = xv.len() == n;
    for i in 0..xv.len() {
        for j in 0..i {
            if xv[i] == xv[j] {
                distinct = false;
            }
        }
    }
    S::prove("nodes-distinct", S::b_const(distinct));
    let inside = xv.iter().all(|x| match fam {
        Fam::Legendre | Fam::Chebyshev1 | Fam::Chebyshev2 => *x > -1.0 && *x < 1.0,
        Fam::Laguerre => *x > 0.0,
        Fam::Hermite => x.is_finite(),
    });
    S::prove("nodes-inside-domain", S::b_const(inside));
    // the same row with g = 0 returns the plain weight sum Q_R[base]
    let (out0, _, _) = extract_row::<S>(fam, r, &|_x: S| S::lit(0.0));
    if let (Ok(v), Ok(v0)) = (out, out0) {
        if r >= 2 {
            let m0 = moment(fam, 0);
            S::prove("weights-sum-to-the-zeroth-moment", S::b_close(v0, S::lit(m0), S::lit(1e-12 * m0)));
        }
        let q = (v - v0) * S::lit(1.0 / EPS);
        let mut exact = S::lit(0.0);
        for k in 0..=deg {
            exact = exact + c[k] * S::lit(scale[k] * moment(fam, k));
        }
        // normalised: every monomial contributes at most 1; tables carry ~16 digits
        let tol = S::lit(1e-10 * (deg + 1) as f64);
        S::prove_m("rule-integrates-degree-2n-1-exactly", S::b_close(q, exact, tol), S::b_gt((q - exact).sabs(), S::lit(1e-4)));
    }
}

/// positivity of every weight of row R: for arbitrary non-negative integrand values with total >= 1 the rule is positive
fn row_positive<S: Sc>(fam: Fam, r: usize) {
    // monotonicity in the integrand values: for two arbitrary integrands u <= v (pointwise at the nodes) whose
    // values differ by at least 1 in total, the rule gives strictly more for v.  Equivalent to: every weight > 0.
    // (two symbolic runs of identical structure: their constant parts cancel exactly)
    let gv = |x: S| S::tape("v", &[x], 0.0, 1.0);
    let gu = |x: S| S::tape("u", &[x], 0.0, 1.0);
    let (outv, xs, _) = extract_row::<S>(fam, r, &gv);
    let (outu, _, _) = extract_row::<S>(fam, r, &gu);
    if let (Ok(v), Ok(u)) = (outv, outu) {
        let mut total = S::lit(0.0);
        let mut ordered = S::b_const(true);
        for x in xs.iter() {
            let (vi, ui) = (S::tape("v", &[*x], 0.0, 1.0), S::tape("u", &[*x], 0.0, 1.0));
            total = total + (vi - ui);
            ordered = S::b_and(ordered, S::b_le(ui, vi));
        }
        S::reach("positive");
        let premise = S::b_and(ordered, S::b_le(S::lit(1.0), total));
        S::prove("weights-positive", S::b_or(S::b_not(premise), S::b_lt(S::lit(0.0), v - u)));
    } else {
        S::prove("integrator-returns-at-the-steered-row", S::b_const(false));
    }
}

/// the one-point rule (row 0) is observed through the stopping rule: with row 0 seeing eps*p and row 1
/// seeing 0, the integrator returns at row 1 iff |eps*Q_0[p]| < tol
fn row_zero<S: Sc>(fam: Fam) {
    let c0 = S::input("c0", -1.0, 1.0);
    let c1 = S::input("c1", -1.0, 1.0);
    let tol = S::input("tol", 1e-6, 1.0);
    let s1 = 1.0 / abs_moment(fam, 1);
    let s0 = 1.0 / abs_moment(fam, 0);
    let calls = RefCell::new(0usize);
    let f = |x: S| -> S {
        let e = *calls.borrow();
        *calls.borrow_mut() += 1;
        if e == 0 {
            S::lit(EPS) * (c0 * S::lit(s0) + c1 * S::lit(s1) * x)
        } else {
            S::lit(0.0)
        }
    };
    let out = call_integrator(fam, f, tol);
    let n = *calls.borrow();
    let exact = S::lit(EPS) * (c0 * S::lit(s0 * moment(fam, 0)) + c1 * S::lit(s1 * moment(fam, 1)));
    S::reach("row0");
    if n == 3 {
        // returned at row 1 (1 + 2 evaluations): |area_0| < tol
        S::prove("one-point-rule-exact-for-degree-1 (returned)", S::b_lt(exact.sabs(), tol * S::lit(1.0 + 1e-9)));
        S::prove("returned-value-is-row-1-of-zero-integrand", S::b_const(out.is_ok()));
    } else {
        S::prove("one-point-rule-exact-for-degree-1 (continued)", S::b_le(tol * S::lit(1.0 - 1e-9), exact.sabs()));
    }
}

/// tanh-sinh: with a huge tolerance `integrate` returns after its third level; the returned value is a
/// linear form in the integrand values whose coefficients must be the double-exponential weights
fn tanh_sinh<S: Sc>() {
    let xs: RefCell<Vec<f64>> = RefCell::new(vec![]);
    let f = |x: S| {
        if let Some(c) = x.concrete() {
            xs.borrow_mut().push(c);
        }
        S::tape("v", &[x], -1.0, 1.0)
    };
    S::no_div_zero_forks();
    let out: Result<S, String> = integrate(S::lit(-1.0), S::lit(1.0), f, S::lit(1e300));
    let out = match out {
        Ok(v) => v,
        Err(_) => {
            S::prove("tanh-sinh-returns", S::b_const(false));
            return;
        }
    };
    S::reach("tanh-sinh");
    // reference: I = sum over levels l = 0..L of 2^-(L-l) * sum_j w_lj (v(x_lj) + v(-x_lj)) + 2^-(L+1)... the
    // centre term pi*v(0) is halved at every level.  Level l uses h = 2^-l and indices j with the
    // new abscissae only: t = j*h for j = 1,2,3 (level 0) and odd multiples of h afterwards.
    let evaluated = xs.borrow().clone();
    let levels = 3usize;
    let mut reference = S::tape("v", &[S::lit(0.0)], -1.0, 1.0) * S::lit(std::f64::consts::PI / 2f64.powi(levels as i32));
    let mut count = 1usize;
    for l in 0..levels {
        let h = 0.5f64.powi(l as i32);
        let half_pi = std::f64::consts::FRAC_PI_2;
        let npts = if l == 0 { 3 } else { 3 * (1 << (l - 1)) };
        for j in 0..npts {
            let t = if l == 0 { (j + 1) as f64 } else { (2 * j + 1) as f64 * h };
            let u = half_pi * t.sinh();
            let x = u.tanh();
            let w = half_pi * h * t.cosh() / (u.cosh() * u.cosh());
            // the abscissa the integrator used is looked up among the evaluated points (nearest)
            let near = evaluated.iter().cloned().filter(|e| *e > 0.0).fold(f64::NAN, |b, e| if b.is_nan() || (e - x).abs() < (b - x).abs() { e } else { b });
            S::prove("tanh-sinh-abscissa-is-double-exponential-formula", S::b_const((near - x).abs() <= 1e-13));
            let wl = w / 2f64.powi((levels - 1 - l) as i32);
            reference = reference + S::lit(wl) * (S::tape("v", &[S::lit(near)], -1.0, 1.0) + S::tape("v", &[S::lit(-near)], -1.0, 1.0));
            count += 2;
        }
    }
    S::prove("tanh-sinh-evaluation-count", S::b_const(evaluated.len() == count));
    S::prove_m("tanh-sinh-weights-are-double-exponential-formula", S::b_close(out, reference, S::lit(1e-12)), S::b_gt((out - reference).sabs(), S::lit(1e-6)));
}

/// tanh-sinh level L >= 2 observed through the public function: only the centre evaluation is non-zero
/// before level L (the running estimate then halves at every level and the stopping rule, with the tolerance
/// placed between the level-(L-1) and level-L differences, fires exactly at level L); level L sees eps*v(x),
/// so the returned value is pi/2^(L+1) + eps * sum_j w_Lj (v(x_j) + v(-x_j)).
fn tanh_sinh_level<S: Sc>(level: usize) {
    let calls = RefCell::new(0usize);
    let xs: RefCell<Vec<f64>> = RefCell::new(vec![]);
    let npts = |l: usize| if l == 0 { 3 } else { 3 * (1usize << (l - 1)) };
    let start_of = |l: usize| 1 + (0..l).map(|k| 2 * npts(k)).sum::<usize>();
    let (lo, hi) = (start_of(level), start_of(level + 1));
    let f = |x: S| {
        let e = *calls.borrow();
        *calls.borrow_mut() += 1;
        if e == 0 {
            S::lit(1.0)
        } else if e >= lo && e < hi {
            if let Some(c) = x.concrete() {
                xs.borrow_mut().push(c);
            }
            S::lit(EPS) * S::tape("v", &[x], -1.0, 1.0)
        } else {
            S::lit(0.0)
        }
    };
    S::no_div_zero_forks();
    let pi = std::f64::consts::PI;
    let tol = 0.75 * pi / 2f64.powi(level as i32);
    let out: Result<S, String> = integrate(S::lit(-1.0), S::lit(1.0), f, S::lit(tol));
    let out = match out {
        Ok(v) => v,
        Err(_) => {
            S::prove("tanh-sinh-returns-at-the-steered-level", S::b_const(false));
            return;
        }
    };
    S::reach("tanh-sinh-level");
    S::prove("tanh-sinh-returns-at-the-steered-level", S::b_const(*calls.borrow() == hi));
    let evaluated = xs.borrow().clone();
    S::prove("tanh-sinh-level-evaluation-count", S::b_const(evaluated.len() == 2 * npts(level)));
    let h = 0.5f64.powi(level as i32);
    let half_pi = std::f64::consts::FRAC_PI_2;
    let mut reference = S::lit(0.0);
    for j in 0..npts(level) {
        let t = (2 * j + 1) as f64 * h;
        let u = half_pi * t.sinh();
        let x = u.tanh();
        let w = half_pi * h * t.cosh() / (u.cosh() * u.cosh());
        let near = evaluated.iter().cloned().filter(|e| *e > 0.0).fold(f64::NAN, |b, e| if b.is_nan() || (e - x).abs() < (b - x).abs() { e } else { b });
        S::prove("tanh-sinh-abscissa-is-double-exponential-formula", S::b_const((near - x).abs() <= 1e-13));
        reference = reference + S::lit(w) * (S::tape("v", &[S::lit(near)], -1.0, 1.0) + S::tape("v", &[S::lit(-near)], -1.0, 1.0));
    }
    let got = (out - S::lit(pi / 2f64.powi(level as i32 + 1))) * S::lit(1.0 / EPS);
    S::prove_m("tanh-sinh-weights-are-double-exponential-formula", S::b_close(got, reference, S::lit(1e-11)), S::b_gt((got - reference).sabs(), S::lit(1e-6)));
}

pub fn run(pr: &mut PropRun, t: &Tier) {
    pr.funcs(&[
        "integrate::{integrate_gaussian,integrate_gaussian_core,integrate_hermite,integrate_laguerre,integrate_chebyshev,integrate_chebyshev_second} as consumers of integrate::tables::WEIGHTS_*",
        "integrate::{integrate,integrate_core} as consumer of WEIGHTS_DE",
    ]);
    pr.bound("every row of the five Gaussian tables (12+27+12+100+100) for exactness, node count, distinctness and domain; weight positivity for every row in the thorough tier and for all Legendre/Laguerre/Hermite rows plus Chebyshev rows 1..24 and every 8th row in the quick tier; per row all 2n polynomial coefficients symbolic (normalised by the absolute moments)");
    pr.bound("tanh-sinh: all 7 levels (levels 0..2 jointly with an unbounded tolerance; levels 2..6 one by one, steering the stopping rule with a centre-only integrand)");
    pr.outside("rounding of symbolic operations");
    pr.assume("reference moments are closed forms evaluated in f64 (relative error ~1e-15); the integrand is stateful (FnMut) and assumes row j consumes j+1 evaluations, which is itself an obligation");
    let mut jobs: Vec<super::Job> = vec![];
    for fam in [Fam::Legendre, Fam::Laguerre, Fam::Hermite, Fam::Chebyshev1, Fam::Chebyshev2] {
        let cfg = t.cfg(&format!("C10:{}(row=0)", fam.name()));
        crate::job!(jobs, cfg, row_zero, fam);
        for r in 1..fam.rows() {
            let dense = matches!(fam, Fam::Legendre | Fam::Laguerre | Fam::Hermite);
            let mut cfg = t.cfg(&format!("C10:{}(row={},exactness)", fam.name(), r));
            cfg.query_timeout_s = if t.thorough { 300.0 } else { 60.0 };
            cfg.validate_paths = 1;
            crate::job!(jobs, cfg, row_exactness, fam, r);
            // (positivity of the long Chebyshev rows only sampled in the quick tier)
            if !t.thorough && !dense && r > 24 && r % 8 != 3 {
                continue;
            }
            let mut cfg = t.cfg(&format!("C10:{}(row={},positive-weights)", fam.name(), r));
            cfg.validate_paths = 1;
            crate::job!(jobs, cfg, row_positive, fam, r);
        }
    }
    let cfg = t.cfg("C10:tanh-sinh(levels 0..2)");
    crate::job!(jobs, cfg, tanh_sinh);
    for level in 2..=6usize {
        let mut cfg = t.cfg(&format!("C10:tanh-sinh(level {})", level));
        cfg.max_decisions = 200;
        crate::job!(jobs, cfg, tanh_sinh_level, level);
    }
    super::run_jobs(pr, jobs, t.threads);
}
