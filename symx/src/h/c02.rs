//! C02 — accepted IVP steps are locally accurate to the requested tolerance (closed-form families).
use super::ivp::*;
use super::Tier;
use crate::ev::PropRun;
use crate::run_h;
use crate::sym::Sc;
use nalgebra::Const;

/// enclosure of exp(z) for |z| <= 1/2: Taylor polynomial of degree 9 with remainder |z|^10 e^{1/2} / 10!
pub fn exp_enclosure<S: Sc>(z: S) -> (S, S) {
    let mut term = S::lit(1.0);
    let mut sum = S::lit(1.0);
    for k in 1..=9 {
        term = term * z * S::rat(1, k);
        sum = sum + term;
    }
    let mut z10 = S::lit(1.0);
    for _ in 0..10 {
        z10 = z10 * z;
    }
    (sum, z10.sabs() * S::lit(1.6487212707001282 / 3628800.0) + S::lit(1e-15))
}

/// Runge-Kutta on y' = lambda*y from an arbitrary state: every accepted step satisfies
/// |y_new - e^{lambda h} y| <= C * tol * h under the property's coupling |lambda| dt_max <= 2 tol^(1/p')
fn rk_linear<S: Sc>(kind: Kind, cmul: f64) {
    let lambda = S::input("lambda", -4.0, 4.0);
    let y0 = S::input("y0", -5.0, 5.0);
    let t0 = S::input("t0", -1.0, 1.0);
    let dt_min = S::input("dt_min", 1e-3, 0.25);
    let dt_max = S::input("dt_max", 1e-3, 0.25);
    S::assume(S::b_le(dt_min, dt_max));
    S::assume(S::b_le(dt_max, dt_min * S::lit(1.3)));
    // tolerance through its root: tol = s^5 (RK45) or s^3 (RK23), s symbolic
    let s = S::input("tol_root", 0.015, 0.27);
    let tol = if kind == Kind::RK45 { s * s * s * s * s } else { s * s * s };
    let coupling = if kind == Kind::RK45 { S::lit(2.0) * s } else { s };
    S::assume(S::b_le(lambda.sabs() * dt_max, coupling));
    S::no_div_zero_forks();
    let c = Conf { t0, t1: t0 + S::lit(50.0), dt_min, dt_max, tol, y0: vec![y0] };
    let log = new_log::<S>();
    let run = run_d1(kind, &c, fn_rhs::<S, Const<1>, _>(log.clone(), move |_t: S, y: &[S]| y.iter().map(|v| lambda * *v).collect()), 1, &log, 0);
    if let Some(item) = run.items.first() {
        S::reach("accepted-step");
        let h = item.t - t0;
        let (e, r) = exp_enclosure(lambda * h);
        // |y1 - y0 e^{z}| <= |y1 - y0 T(z)| + |y0| R(z)
        let err = (item.y[0] - y0 * e).sabs() + y0.sabs() * r;
        S::prove_m("accepted-step-within-C-tol-h-of-the-exact-flow", S::b_le(err, tol * h * S::lit(cmul) + S::lit(1e-12)), S::b_gt(err, tol * h * S::lit(cmul * 20.0) + S::lit(1e-9)));
    }
}

/// quadrature problems y' = a0 + a1 t + ... + a4 t^4 (exact flow is a polynomial)
fn rk_quadrature<S: Sc>(kind: Kind, cmul: f64) {
    let a: Vec<S> = (0..5).map(|k| S::input(&format!("a{}", k), -2.0, 2.0)).collect();
    let y0 = S::input("y0", -5.0, 5.0);
    let t0 = S::input("t0", -1.0, 1.0);
    let dt_min = S::input("dt_min", 1e-2, 0.25);
    let dt_max = S::input("dt_max", 1e-2, 0.25);
    S::assume(S::b_le(dt_min, dt_max));
    S::assume(S::b_le(dt_max, dt_min * S::lit(1.3)));
    let tol = S::input("tol", 1e-10, 1e-3);
    S::no_div_zero_forks();
    let c = Conf { t0, t1: t0 + S::lit(50.0), dt_min, dt_max, tol, y0: vec![y0] };
    let log = new_log::<S>();
    let aa = a.clone();
    let run = run_d1(kind, &c, fn_rhs::<S, Const<1>, _>(log.clone(), move |t: S, y: &[S]| y.iter().map(|_| super::util::horner(&aa, t)).collect()), 1, &log, 0);
    if let Some(item) = run.items.first() {
        S::reach("accepted-step");
        let anti = |t: S| {
            let ac: Vec<S> = std::iter::once(S::lit(0.0)).chain((0..5).map(|k| a[k] * S::rat(1, (k + 1) as i64))).collect();
            super::util::horner(&ac, t)
        };
        let exact = y0 + anti(item.t) - anti(t0);
        let h = item.t - t0;
        let err = (item.y[0] - exact).sabs();
        S::prove_m("accepted-step-within-C-tol-h-of-the-exact-flow", S::b_le(err, tol * h * S::lit(cmul) + S::lit(1e-12)), S::b_gt(err, tol * h * S::lit(cmul * 20.0) + S::lit(1e-9)));
    }
}



/// NATIVE calibration of a harness constant (it selects which sub-family of inputs is analysed, nothing is decided by
/// it): the error estimate kappa of the first multistep step after the Runge-Kutta start-up on y' = lambda*y, y0 = 1,
/// found by bisection on the tolerance (the start-up is rejected iff kappa > tol; observable through the number of
/// derivative evaluations before the first yielded point).  The estimate scales with |y0|.
pub fn startup_error(kind: Kind, lambda: f64, dt_min: f64, dt_max: f64) -> f64 {
    let calls = |tol: f64| -> usize {
        let c = Conf::<f64> { t0: 0.0, t1: 50.0, dt_min, dt_max, tol, y0: vec![1.0] };
        let log = new_log::<f64>();
        let run = run_d1(kind, &c, fn_rhs::<f64, Const<1>, _>(log.clone(), move |_t: f64, y: &[f64]| y.iter().map(|v| lambda * *v).collect()), 1, &log, 0);
        run.items.first().map_or(usize::MAX, |i| i.calls)
    };
    let base = calls(1e6);
    let (mut lo, mut hi) = (1e-16f64, 1e6f64);
    for _ in 0..200 {
        let mid = (lo * hi).sqrt();
        if calls(mid) == base {
            hi = mid
        } else {
            lo = mid
        }
    }
    hi
}

/// tolerance window (relative to |y0|) in which the first attempt is rejected and the repeated start-up (retry
/// factor (tol / 2 err)^(1/O), symbolic) is accepted: estimate / tolerance between 1.2 and 2.5
pub fn rejected_startup_window(kind: Kind, lambda: f64, dt_min: f64, dt_max: f64) -> (f64, f64) {
    let k = startup_error(kind, lambda, dt_min, dt_max);
    (k / 2.5, k / 1.2)
}

/// tolerance window in which the first attempt is accepted without a step-size increase
pub fn accepted_startup_window(kind: Kind, lambda: f64, dt_min: f64, dt_max: f64) -> (f64, f64) {
    let k = startup_error(kind, lambda, dt_min, dt_max);
    (1.05 * k, 8.0 * k)
}

/// multistep solvers on y' = lambda*y (concrete lambda and step bounds; start, tolerance symbolic) with the tolerance
/// so tight relative to the first trial step that the start-up is REJECTED by its first predictor-corrector /
/// BDF step and repeated with a smaller step: every consecutive pair of yielded points is locally accurate
/// (C tol h plus the fifth-order term of the Runge-Kutta start-up steps, which no estimator sees)
pub fn multistep_linear<S: Sc>(kind: Kind, lambda: f64, dt_min: f64, dt_max: f64, window: (f64, f64), items: usize, global: bool, y0c: Option<f64>) {
    // (a concrete start makes the rejected attempt's retry factor an algebraic function of the tolerance alone:
    //  univariate queries)
    let y0 = match y0c {
        Some(v) => S::lit(v),
        None => S::input("y0", -3.0, 3.0),
    };
    S::assume(S::b_ge(y0.sabs(), S::lit(0.5)));
    let t0 = S::input("t0", -1.0, 1.0);
    let tol = S::input("tol", 1e-12, 1e-2);
    S::assume(S::b_le(y0.sabs() * S::lit(window.0), tol));
    S::assume(S::b_le(tol, y0.sabs() * S::lit(window.1)));
    let _ = S::tape; // (no arbitrary function here)
    S::no_div_zero_forks();
    let lam = S::lit(lambda);
    let c = Conf { t0, t1: t0 + S::lit(50.0), dt_min: S::lit(dt_min), dt_max: S::lit(dt_max), tol, y0: vec![y0] };
    let log = new_log::<S>();
    let run = run_d1(kind, &c, fn_rhs::<S, Const<1>, _>(log.clone(), move |_t: S, y: &[S]| y.iter().map(|v| lam * *v).collect()), items, &log, 0);
    S::reach("multistep-linear");
    let bdf = matches!(kind, Kind::BDF2 | Kind::BDF6);
    let mut prev = (t0, y0);
    if global {
        // C04: every yielded state within K tol (K tol n for BDF) of the true solution at the yielded time
        for (n, item) in run.items.iter().enumerate() {
            let z = lam * (item.t - t0);
            let (e, r) = exp_enclosure(z);
            let err = (item.y[0] - y0 * e).sabs() + y0.sabs() * r;
            let k = if bdf { 8.0 * (n as f64 + 1.0) } else { 8.0 };
            let bound = tol * S::lit(k) + S::lit(1e-13);
            S::prove_m("yielded-state-within-K-tol-of-the-true-solution-at-the-yielded-time", S::b_le(err, bound), S::b_gt(err, bound * S::lit(50.0) + S::lit(1e-9)));
        }
        return;
    }
    for item in run.items.iter() {
        let h = item.t - prev.0;
        S::prove("time-advances", S::b_lt(S::lit(0.0), h));
        let z = lam * h;
        let (e, r) = exp_enclosure(z);
        let err = (item.y[0] - prev.1 * e).sabs() + prev.1.sabs() * r;
        let z5 = (z * z * z * z * z).sabs();
        let unit = if bdf { tol } else { tol * h };
        let bound = unit * S::lit(8.0) + prev.1.sabs() * z5 * S::lit(0.05) + S::lit(1e-13);
        S::prove_m("accepted-step-within-C-tol-h-of-the-exact-flow", S::b_le(err, bound), S::b_gt(err, bound * S::lit(50.0) + S::lit(1e-9)));
        prev = (item.t, item.y[0]);
    }
}


/// problems every solver of order >= 2 integrates exactly: y' = a + b t (a, b, start value, tolerance, end time symbolic;
/// start time and step bounds seeded concrete).  Every yielded pair lies on the exact flow
/// y(t+h) = y(t) + a h + b (t h + h^2/2): the local error is zero, whatever tolerance was asked for.  This is the
/// member of the property's family that exposes a stage or history term evaluated at the wrong TIME.
pub fn affine_in_t<S: Sc>(kind: Kind, t0c: f64, dt_min: f64, dt_max: f64, horizon: f64) {
    let a = S::input("a", -2.0, 2.0);
    let b = S::input("b", -2.0, 2.0);
    let y0 = S::input("y0", -3.0, 3.0);
    let tol = S::input("tol", 1e-10, 1e-3);
    let len = S::input("len", 0.01, horizon);
    let t0 = S::lit(t0c);
    S::no_div_zero_forks();
    let c = Conf { t0, t1: t0 + len, dt_min: S::lit(dt_min), dt_max: S::lit(dt_max), tol, y0: vec![y0] };
    let log = new_log::<S>();
    let run = run_d1(kind, &c, fn_rhs::<S, Const<1>, _>(log.clone(), move |t: S, y: &[S]| y.iter().map(|_| a + b * t).collect()), kind.startup() + 6, &log, 0);
    S::reach("affine-in-t");
    // (the BDF estimator compares with the next lower order, which is NOT exact here: it may legitimately ask for a
    //  step below dt_min; the Runge-Kutta and Adams estimates vanish identically)
    let bdf = matches!(kind, Kind::BDF2 | Kind::BDF6);
    let ok = run.build_err.is_none() && (run.err.is_none() || (bdf && run.err.as_ref().map_or(false, |e| e.starts_with("MinimumTimeDeltaExceeded"))));
    S::prove("no-error-on-a-problem-the-method-integrates-exactly", S::b_const(ok));
    let mut prev = (t0, y0);
    for item in run.items.iter() {
        let h = item.t - prev.0;
        let exact = prev.1 + a * h + b * (prev.0 * h + h * h * S::lit(0.5));
        S::prove_m("yielded-pair-lies-on-the-exact-flow", S::b_close(item.y[0], exact, S::lit(1e-9)), S::b_gt((item.y[0] - exact).sabs(), S::lit(1e-5)));
        prev = (item.t, item.y[0]);
    }
}

pub fn run(pr: &mut PropRun, t: &Tier) {
    pr.funcs(&["ivp::rk::RungeKuttaSolver::step for RK45 and RK23 (accept decision, update, controller)"]);
    pr.bound("one accepted Runge-Kutta step from an ARBITRARY symbolic state (complete for one-step methods): linear test equation y' = lambda*y (lambda, y, dt_min, dt_max, tol symbolic; exact flow enclosed by a degree-9 Taylor polynomial with explicit remainder; the property's coupling |lambda| dt_max <= 2 tol^(1/5) resp. tol^(1/3) as polynomial constraints); bound C*tol*h with C = 4; RK23 in the quick tier, RK45 (degree-11 obligations) in the thorough tier");
    pr.outside("Adams and BDF steps (their start-up steps are uncontrolled RK4 steps whose error is not proportional to tol*h; their multistep steps depend on several previous points: measured too large for nlsat), non-linear right-hand sides, the 1e-13 reference flow of the property");
    // (quadrature problems y' = p(t) are NOT in the class: their Lipschitz constant is 0, the property's coupling is
    //  vacuous there and the solver immediately finds polynomials whose leading error the embedded estimator cannot
    //  see -- an over-demanding oracle, removed; see DESIGN.md)
    let _ = rk_quadrature::<f64>;
    for kind in Kind::ADAPTIVE {
        // (Runge-Kutta: the two embedded solutions agree only up to the rounding of the tableau constants, the
        //  controller then takes a fourth root of a symbolic quotient: 145 s each; BDF2: 264 paths, 320 s)
        if !t.thorough && matches!(kind, Kind::RK45 | Kind::RK23 | Kind::BDF2) {
            continue;
        }
        let mut cfg = t.cfg(&format!("C02:affine-in-t({})", kind.name()));
        cfg.max_decisions = 300;
        run_h!(pr, cfg, affine_in_t, kind, -0.75, 0.015625, 0.125, 1.5);
    }
    for kind in [Kind::Adams3, Kind::Adams5] {
        for lambda in [-1.25, 0.75] {
            for (name, w, y0c) in [("rejected-start-up", rejected_startup_window(kind, lambda, 0.001, 0.2), Some(-1.5)), ("accepted-start-up", accepted_startup_window(kind, lambda, 0.001, 0.2), None)] {
                let mut cfg = t.cfg(&format!("C02:multistep-linear({},lambda={},{})", kind.name(), lambda, name));
                cfg.max_decisions = 200;
                run_h!(pr, cfg, multistep_linear, kind, lambda, 0.001, 0.2, w, kind.startup() + 3, false, y0c);
            }
        }
    }
    for kind in [Kind::BDF2, Kind::BDF6] {
        // (BDF halves / doubles its step: with concrete bounds every step size is concrete, all queries linear in (y0, tol))
        for lambda in [-1.25, 0.75] {
            // (45 - 135 s each: one member in the quick tier)
            if !t.thorough && !(kind == Kind::BDF2 && lambda < 0.0) {
                continue;
            }
            let mut cfg = t.cfg(&format!("C02:multistep-linear({},lambda={})", kind.name(), lambda));
            cfg.max_decisions = 400;
            run_h!(pr, cfg, multistep_linear, kind, lambda, 0.001, 0.2, (1e-9, 1e-3), kind.startup() + 3, false, None);
        }
    }
    for kind in [Kind::RK23, Kind::RK45] {
        // (RK45: degree-11 polynomial obligations, undecided within 60 s: thorough tier only)
        if kind == Kind::RK45 && !t.thorough {
            continue;
        }
        let mut cfg = t.cfg(&format!("C02:rk-linear({})", kind.name()));
        cfg.max_decisions = 40;
        cfg.query_timeout_s = if t.thorough { 600.0 } else { 90.0 };
        run_h!(pr, cfg, rk_linear, kind, 4.0);
    }
}
