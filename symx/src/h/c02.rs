//! C02 — accepted IVP steps are locally accurate to the requested tolerance (closed-form families).
use super::ivp::*;
use super::Tier;
use crate::ev::PropRun;
use crate::run_h;
use crate::sym::Sc;
use nalgebra::Const;

/// enclosure of exp(z) for |z| <= 1/2: Taylor polynomial of degree 9 with remainder |z|^10 e^{1/2} / 10!
fn exp_enclosure<S: Sc>(z: S) -> (S, S) {
    let mut term = S::lit(1.0);
    let mut sum = S::lit(1.0);
    for k in 1..=9 {
        term = term * z * S::rat(1, k);
        sum = sum + term;
    }
    let mut z10 = S::lit(1.0);
    for _ in 0..10 {
        z10 = z10 * z;
    }
    (sum, z10.sabs() * S::lit(1.6487212707001282 / 3628800.0) + S::lit(1e-15))
}

/// Runge-Kutta on y' = lambda*y from an arbitrary state: every accepted step satisfies
/// |y_new - e^{lambda h} y| <= C * tol * h under the property's coupling |lambda| dt_max <= 2 tol^(1/p')
fn rk_linear<S: Sc>(kind: Kind, cmul: f64) {
    let lambda = S::input("lambda", -4.0, 4.0);
    let y0 = S::input("y0", -5.0, 5.0);
    let t0 = S::input("t0", -1.0, 1.0);
    let dt_min = S::input("dt_min", 1e-3, 0.25);
    let dt_max = S::input("dt_max", 1e-3, 0.25);
    S::assume(S::b_le(dt_min, dt_max));
    S::assume(S::b_le(dt_max, dt_min * S::lit(1.3)));
    // tolerance through its root: tol = s^5 (RK45) or s^3 (RK23), s symbolic
    let s = S::input("tol_root", 0.015, 0.27);
    let tol = if kind == Kind::RK45 { s * s * s * s * s } else { s * s * s };
    let coupling = if kind == Kind::RK45 { S::lit(2.0) * s } else { s };
    S::assume(S::b_le(lambda.sabs() * dt_max, coupling));
    S::no_div_zero_forks();
    let c = Conf { t0, t1: t0 + S::lit(50.0), dt_min, dt_max, tol, y0: vec![y0] };
    let log = new_log::<S>();
    let run = run_d1(kind, &c, fn_rhs::<S, Const<1>, _>(log.clone(), move |_t: S, y: &[S]| y.iter().map(|v| lambda * *v).collect()), 1, &log, 0);
    if let Some(item) = run.items.first() {
        S::reach("accepted-step");
        let h = item.t - t0;
        let (e, r) = exp_enclosure(lambda * h);
        // |y1 - y0 e^{z}| <= |y1 - y0 T(z)| + |y0| R(z)
        let err = (item.y[0] - y0 * e).sabs() + y0.sabs() * r;
        S::prove_m("accepted-step-within-C-tol-h-of-the-exact-flow", S::b_le(err, tol * h * S::lit(cmul) + S::lit(1e-12)), S::b_gt(err, tol * h * S::lit(cmul * 20.0) + S::lit(1e-9)));
    }
}

/// quadrature problems y' = a0 + a1 t + ... + a4 t^4 (exact flow is a polynomial)
fn rk_quadrature<S: Sc>(kind: Kind, cmul: f64) {
    let a: Vec<S> = (0..5).map(|k| S::input(&format!("a{}", k), -2.0, 2.0)).collect();
    let y0 = S::input("y0", -5.0, 5.0);
    let t0 = S::input("t0", -1.0, 1.0);
    let dt_min = S::input("dt_min", 1e-2, 0.25);
    let dt_max = S::input("dt_max", 1e-2, 0.25);
    S::assume(S::b_le(dt_min, dt_max));
    S::assume(S::b_le(dt_max, dt_min * S::lit(1.3)));
    let tol = S::input("tol", 1e-10, 1e-3);
    S::no_div_zero_forks();
    let c = Conf { t0, t1: t0 + S::lit(50.0), dt_min, dt_max, tol, y0: vec![y0] };
    let log = new_log::<S>();
    let aa = a.clone();
    let run = run_d1(kind, &c, fn_rhs::<S, Const<1>, _>(log.clone(), move |t: S, y: &[S]| y.iter().map(|_| super::util::horner(&aa, t)).collect()), 1, &log, 0);
    if let Some(item) = run.items.first() {
        S::reach("accepted-step");
        let anti = |t: S| {
            let ac: Vec<S> = std::iter::once(S::lit(0.0)).chain((0..5).map(|k| a[k] * S::rat(1, (k + 1) as i64))).collect();
            super::util::horner(&ac, t)
        };
        let exact = y0 + anti(item.t) - anti(t0);
        let h = item.t - t0;
        let err = (item.y[0] - exact).sabs();
        S::prove_m("accepted-step-within-C-tol-h-of-the-exact-flow", S::b_le(err, tol * h * S::lit(cmul) + S::lit(1e-12)), S::b_gt(err, tol * h * S::lit(cmul * 20.0) + S::lit(1e-9)));
    }
}

pub fn run(pr: &mut PropRun, t: &Tier) {
    pr.funcs(&["ivp::rk::RungeKuttaSolver::step for RK45 and RK23 (accept decision, update, controller)"]);
    pr.bound("one accepted Runge-Kutta step from an ARBITRARY symbolic state (complete for one-step methods): linear test equation y' = lambda*y (lambda, y, dt_min, dt_max, tol symbolic; exact flow enclosed by a degree-9 Taylor polynomial with explicit remainder; the property's coupling |lambda| dt_max <= 2 tol^(1/5) resp. tol^(1/3) as polynomial constraints); bound C*tol*h with C = 4; RK23 in the quick tier, RK45 (degree-11 obligations) in the thorough tier");
    pr.outside("Adams and BDF steps (their start-up steps are uncontrolled RK4 steps whose error is not proportional to tol*h; their multistep steps depend on several previous points: measured too large for nlsat), non-linear right-hand sides, the 1e-13 reference flow of the property");
    // (quadrature problems y' = p(t) are NOT in the class: their Lipschitz constant is 0, the property's coupling is
    //  vacuous there and the solver immediately finds polynomials whose leading error the embedded estimator cannot
    //  see -- an over-demanding oracle, removed; see DESIGN.md)
    let _ = rk_quadrature::<f64>;
    for kind in [Kind::RK23, Kind::RK45] {
        // (RK45: degree-11 polynomial obligations, undecided within 60 s: thorough tier only)
        if kind == Kind::RK45 && !t.thorough {
            continue;
        }
        let mut cfg = t.cfg(&format!("C02:rk-linear({})", kind.name()));
        cfg.max_decisions = 40;
        cfg.query_timeout_s = if t.thorough { 600.0 } else { 90.0 };
        run_h!(pr, cfg, rk_linear, kind, 4.0);
    }
}
