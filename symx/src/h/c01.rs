//! C01 — IVP solution paths are ordered, gap-bounded and reach the end time.
use super::ivp::*;
use super::Tier;
use crate::ev::PropRun;
use crate::run_h;
use crate::sym::Sc;

const YB: f64 = 5.0;
const VB: f64 = 5.0;

/// `horizon`: Some(H) = complete runs with t1 - t0 <= H*dt_min; None = first `max_items` points of an unbounded run.
/// `family`: Some((seed, member)) = concrete seeded problem (used for the implicit BDF solvers), None = fully symbolic.
fn path<S: Sc>(kind: Kind, horizon: Option<f64>, max_items: usize, ratio: f64, dim: usize, dynamic: bool, family: Option<(i64, usize)>) {
    let log = new_log::<S>();
    let (c, run) = if let Some((seed, member)) = family {
        S::no_div_zero_forks();
        let (c, f, _) = conf_family::<S, nalgebra::Const<1>>(1, seed, member, log.clone());
        S::assume(S::b_lt(c.t0, c.t1));
        if let Some(h) = horizon {
            S::assume(S::b_le(c.t1 - c.t0, c.dt_min * S::lit(h)));
        }
        let run = run_d1(kind, &c, f, max_items, &log, 2);
        (c, run)
    } else {
        let c = conf_inputs::<S>(dim, YB);
        assume_valid(&c);
        S::assume(S::b_le(c.dt_max, c.dt_min * S::lit(ratio)));
        if let Some(h) = horizon {
            S::assume(S::b_le(c.t1 - c.t0, c.dt_min * S::lit(h)));
        }
        let run = if dynamic {
            run_dyn(kind, &c, tape_rhs(log.clone(), VB, None), max_items, &log, 2)
        } else if dim == 1 {
            run_d1(kind, &c, tape_rhs(log.clone(), VB, None), max_items, &log, 2)
        } else {
            run_d2(kind, &c, tape_rhs(log.clone(), VB, None), max_items, &log, 2)
        };
        (c, run)
    };
    S::prove("valid-configuration-builds", S::b_const(run.build_err.is_none()));
    let slack = S::lit(1e-12);
    let euler_dt = (c.dt_min + c.dt_max) * S::rat(1, 2);
    let mut prev_t = c.t0;
    for (n, item) in run.items.iter().enumerate() {
        S::reach("item");
        S::prove("state-has-problem-dimension", S::b_const(item.y.len() == dim));
        let finite = item.y.iter().all(|v| v.concrete().map_or(true, |x| x.is_finite())) && item.t.concrete().map_or(true, |x| x.is_finite());
        S::prove("state-entries-finite", S::b_const(finite));
        if n == 0 && kind == Kind::Euler {
            S::prove("euler/first-point-is-initial-time", S::b_eq(item.t, c.t0));
            for d in 0..dim {
                S::prove("euler/first-point-is-initial-state", S::b_eq(item.y[d], c.y0[d]));
            }
        } else {
            S::prove_m("times-strictly-increasing", S::b_lt(prev_t, item.t), S::b_le(item.t, prev_t - S::lit(1e-9)));
        }
        S::prove("time-not-before-start", S::b_le(c.t0, item.t));
        S::prove_m("time-not-after-end", S::b_le(item.t, c.t1 + slack), S::b_gt(item.t, c.t1 + S::lit(1e-9)));
        S::prove_m("gap-at-most-dt-max", S::b_le(item.t - prev_t, c.dt_max + slack), S::b_gt(item.t - prev_t, c.dt_max * S::lit(1.0 + 1e-6)));
        if kind == Kind::Euler {
            S::prove("euler/one-point-per-step", S::b_close(item.t, c.t0 + S::lit(n as f64) * euler_dt, S::lit(1e-9)));
            S::prove("euler/point-strictly-before-end", S::b_lt(item.t, c.t1));
        }
        prev_t = item.t;
    }
    if run.ended && run.err.is_none() {
        S::reach("completed");
        S::prove("yields-at-least-one-point", S::b_const(!run.items.is_empty()));
        if kind.adaptive() {
            S::prove_m("completed-run-ends-exactly-at-end-time", S::b_close(prev_t, c.t1, slack), S::b_gt((prev_t - c.t1).sabs(), S::lit(1e-9)));
        } else {
            // every step time strictly before the end was yielded: the next one is not before the end
            S::prove("euler/no-step-time-before-end-missing", S::b_le(c.t1, prev_t + euler_dt + S::lit(1e-9)));
        }
        S::prove("nothing-after-completion", S::b_const(run.extra_after_end == 0));
        S::control("completed");
    }
}

pub fn run(pr: &mut PropRun, t: &Tier) {
    pr.funcs(&[
        "ivp::Euler / EulerSolver::step",
        "ivp::rk::RungeKutta{45,23} / RungeKuttaSolver::step",
        "ivp::adams::Adams{5,3} / AdamsSolver::{step,runge_kutta}",
        "ivp::bdf::BDF{6,2} / BDFSolver::{step,runge_kutta,secant,jac_finite_diff}",
        "ivp::IVPIterator::next",
        "all builders (with_* / solve)",
    ]);
    pr.bound("explicit solvers: right-hand side = arbitrary function of (t,y), |f|<=5 (uninterpreted tape): every accept/reject/growth pattern of the controllers is a feasible path");
    pr.bound("implicit (BDF) solvers: seeded concrete affine problems f=a*y+b*t+c with concrete step bounds and initial state; start time, end time and tolerance symbolic (queries linear); denominators assumed non-zero unless forced");
    pr.bound("t0 in [-10,10], t1 in (t0,20], dt_min<=dt_max in [1e-3,1], tol in [1e-8,1], |y0|<=5, all symbolic");
    let (hz, ratio, k): (f64, f64, usize) = if t.thorough { (4.5, 2.0, 5) } else { (2.5, 1.3, 3) };
    pr.bound(&format!("(a) complete runs on short horizons t1-t0 <= {}*dt_min; (b) first {} points of runs with unbounded horizon; dt_max <= {}*dt_min (bounds consecutive rejections)", hz, k, ratio));
    pr.outside("runs of thousands of steps (ordering/gap obligations are per point and hold for the explored prefixes; reaching the end is shown on the short horizons only); dimension 3-4; NaN/inf data; floating-point landing on the end time (real arithmetic here)");
    let explicit = [Kind::Euler, Kind::RK45, Kind::RK23, Kind::Adams5, Kind::Adams3];
    for kind in explicit {
        // multistep methods need room for start-up + one multistep step to enter their multistep phase
        let h = if kind.startup() > 0 { (kind.startup() as f64 + 2.5).max(hz) } else { hz };
        let mut cfg = t.cfg(&format!("C01:short({},H={})", kind.name(), h));
        cfg.max_decisions = 160;
        run_h!(pr, cfg, path, kind, Some(h), 40, ratio, 1, false, None);
    }
    for kind in explicit {
        // the Runge-Kutta controllers have ~8 decisions per attempt: one point fewer in the quick tier
        let items = if matches!(kind, Kind::RK45 | Kind::RK23) && !t.thorough { 2 } else { k + kind.startup() };
        let mut cfg = t.cfg(&format!("C01:prefix({},items={})", kind.name(), items));
        cfg.max_decisions = 30 + 12 * items;
        run_h!(pr, cfg, path, kind, None, items, ratio, 1, false, None);
    }
    // implicit solvers: seeded concrete problems, symbolic (t0, t1, tol) -- all queries linear
    let members = if t.thorough { 6 } else { 2 };
    for kind in [Kind::BDF2, Kind::BDF6] {
        for m in 0..members {
            let h = kind.startup() as f64 + 3.5;
            let mut cfg = t.cfg(&format!("C01:short({},H={},family={})", kind.name(), h, m));
            cfg.max_decisions = 400;
            run_h!(pr, cfg, path, kind, Some(h), 60, ratio, 1, false, Some((t.seed, m)));
            let items = kind.startup() + k;
            let mut cfg = t.cfg(&format!("C01:prefix({},items={},family={})", kind.name(), items, m));
            cfg.max_decisions = 400;
            run_h!(pr, cfg, path, kind, None, items, ratio, 1, false, Some((t.seed, m)));
        }
    }
    // dimension 2, static and dynamic
    for kind in [Kind::Euler, Kind::Adams3] {
        let mut cfg = t.cfg(&format!("C01:short({},H=1.5,D=2)", kind.name()));
        cfg.max_decisions = 80;
        run_h!(pr, cfg, path, kind, Some(1.5), 20, 1.3, 2, false, None);
        let mut cfg = t.cfg(&format!("C01:short({},H=1.5,Dyn2)", kind.name()));
        cfg.max_decisions = 80;
        run_h!(pr, cfg, path, kind, Some(1.5), 20, 1.3, 2, true, None);
    }
}
