//! C03 — each yielded IVP point is a step of the advertised numerical method.
use super::ivp::*;
use super::Tier;
use crate::ev::PropRun;
use crate::run_h;
use crate::sym::Sc;

const YB: f64 = 5.0;
const VB: f64 = 5.0;

pub struct Tableau {
    pub c: Vec<(i64, i64)>,
    pub a: Vec<Vec<(i64, i64)>>,
    pub b: Vec<(i64, i64)>,
    pub e: Vec<(i64, i64)>,
    /// index of the stage with c = 1 (used to read the attempted step length off the call log)
    pub unit_stage: usize,
}

pub fn fehlberg45() -> Tableau {
    Tableau {
        c: vec![(0, 1), (1, 4), (3, 8), (12, 13), (1, 1), (1, 2)],
        a: vec![
            vec![],
            vec![(1, 4)],
            vec![(3, 32), (9, 32)],
            vec![(1932, 2197), (-7200, 2197), (7296, 2197)],
            vec![(439, 216), (-8, 1), (3680, 513), (-845, 4104)],
            vec![(-8, 27), (2, 1), (-3544, 2565), (1859, 4104), (-11, 40)],
        ],
        b: vec![(25, 216), (0, 1), (1408, 2565), (2197, 4104), (-1, 5), (0, 1)],
        e: vec![(1, 360), (0, 1), (-128, 4275), (-2197, 75240), (1, 50), (2, 55)],
        unit_stage: 4,
    }
}

pub fn bogacki_shampine23() -> Tableau {
    Tableau {
        c: vec![(0, 1), (1, 2), (3, 4), (1, 1)],
        a: vec![vec![], vec![(1, 2)], vec![(0, 1), (3, 4)], vec![(2, 9), (1, 3), (4, 9)]],
        b: vec![(2, 9), (1, 3), (4, 9), (0, 1)],
        // third-order weights minus second-order weights (7/24, 1/4, 1/3, 1/8)
        e: vec![(-5, 72), (1, 12), (1, 9), (-1, 8)],
        unit_stage: 3,
    }
}

fn r<S: Sc>(pq: (i64, i64)) -> S {
    S::rat(pq.0, pq.1)
}

/// Runge-Kutta: every attempted step evaluates the derivative at the published nodes and stage
/// states; every accepted point is the published update and its embedded estimate is within tolerance.
fn rk<S: Sc>(kind: Kind, items: usize, ratio: f64, dim: usize) {
    let tb = if kind == Kind::RK45 { fehlberg45() } else { bogacki_shampine23() };
    let o = tb.c.len();
    let c = if ratio <= 1.0 {
        // concrete step and start (dimension-2 variant: keeps the Euclidean-norm queries small): the
        // stage derivatives and the tolerance stay symbolic
        // (dt_min well below dt_max: an accepted step whose estimate is close to the tolerance shrinks the next step and must still be yielded)
        Conf { t0: S::lit(0.25), t1: S::lit(8.0), dt_min: S::lit(0.0703125), dt_max: S::lit(0.125), tol: S::input("tol", 1e-8, 1.0), y0: (0..dim).map(|i| S::lit(0.5 - i as f64)).collect() }
    } else {
        let c = conf_inputs::<S>(dim, YB);
        assume_valid(&c);
        S::assume(S::b_le(c.dt_max, c.dt_min * S::lit(ratio)));
        c
    };
    let log = new_log::<S>();
    let run = if dim == 1 {
        run_d1(kind, &c, tape_rhs(log.clone(), VB, None), items, &log, 0)
    } else if ratio <= 1.0 {
        // two symbolic amplitudes times seeded concrete stage values: the Euclidean norm of the estimate is
        // sqrt((alpha*A)^2 + (beta*B)^2) with concrete A, B (3 symbolic quantities with the tolerance)
        let alpha = S::input("alpha", -4.0, 4.0);
        let beta = S::input("beta", -4.0, 4.0);
        let l2 = log.clone();
        let f: Rhs<S, nalgebra::Const<2>> = Box::new(move |t: S, y: &[S], _d: &mut ()| {
            let k = l2.borrow().len() as i64;
            let mut g = super::util::Lcg::new(977 * k + 31);
            let v = vec![alpha * S::lit(g.range_r(-1.0, 1.0, 2)), beta * S::lit(g.range_r(-1.0, 1.0, 2))];
            l2.borrow_mut().push(Call { t, y: y.to_vec(), v: v.clone() });
            Ok(vec_d::<S, nalgebra::Const<2>>(&v))
        });
        run_d2(kind, &c, f, items, &log, 0)
    } else {
        run_d2(kind, &c, tape_rhs(log.clone(), VB, None), items, &log, 0)
    };
    let calls = log.borrow();
    let eps = S::lit(1e-9);
    let mut prev_t = c.t0;
    let mut prev_y = c.y0.clone();
    let mut ix = 0usize;
    for (n, item) in run.items.iter().enumerate() {
        let ncalls = item.calls - ix;
        S::prove("rk/stage-count-multiple-of-order", S::b_const(ncalls % o == 0 && ncalls > 0));
        if ncalls % o != 0 || ncalls == 0 {
            return;
        }
        let attempts = ncalls / o;
        for a in 0..attempts {
            let ch = &calls[ix + a * o..ix + (a + 1) * o];
            let h = ch[tb.unit_stage].t - prev_t;
            let accepted = a + 1 == attempts;
            for i in 0..o {
                S::prove(&format!("rk/stage{}-time", i), S::b_close(ch[i].t, prev_t + r::<S>(tb.c[i]) * h, eps));
                for d in 0..dim {
                    let mut st = prev_y[d];
                    for j in 0..tb.a[i].len() {
                        st = st + h * r::<S>(tb.a[i][j]) * ch[j].v[d];
                    }
                    S::prove_m(&format!("rk/stage{}-state", i), S::b_close(ch[i].y[d], st, eps), S::b_gt((ch[i].y[d] - st).sabs(), S::lit(1e-4)));
                }
            }
            if accepted {
                S::reach("rk/accepted");
                S::prove("rk/accepted-time", S::b_close(item.t, prev_t + h, eps));
                let mut est_sq = S::lit(0.0);
                for d in 0..dim {
                    let mut ynew = prev_y[d];
                    let mut est = S::lit(0.0);
                    for i in 0..o {
                        ynew = ynew + h * r::<S>(tb.b[i]) * ch[i].v[d];
                        est = est + r::<S>(tb.e[i]) * ch[i].v[d];
                    }
                    S::prove_m("rk/accepted-state", S::b_close(item.y[d], ynew, eps), S::b_gt((item.y[d] - ynew).sabs(), S::lit(1e-4)));
                    est_sq = est_sq + est * est;
                }
                // ||h*sum e_i k_i|| / h <= tol  (squared form avoids the square root)
                let lim = c.tol * S::lit(1.0 + 1e-6);
                S::prove_m("rk/accepted-error-estimate-within-tolerance", S::b_le(est_sq, lim * lim), S::b_gt(est_sq, lim * lim * S::lit(1.21)));
            }
        }
        ix = item.calls;
        prev_t = item.t;
        prev_y = item.y.clone();
        if n == 0 {
            S::control("rk/first-item");
        }
    }
}

/// Euler: y_next = y + dt*f(t, y) for consecutive yielded points
fn euler<S: Sc>(items: usize, dim: usize) {
    let c = conf_inputs::<S>(dim, YB);
    assume_valid(&c);
    let log = new_log::<S>();
    let run = if dim == 1 {
        run_d1(Kind::Euler, &c, tape_rhs(log.clone(), VB, None), items, &log, 0)
    } else {
        run_d2(Kind::Euler, &c, tape_rhs(log.clone(), VB, None), items, &log, 0)
    };
    let calls = log.borrow();
    let eps = S::lit(1e-9);
    for n in 1..run.items.len() {
        let (p, q) = (&run.items[n - 1], &run.items[n]);
        S::reach("euler/step");
        // the derivative call made when p was yielded is call number n-1, evaluated at (p.t, p.y)
        let call = &calls[n - 1];
        S::prove("euler/derivative-evaluated-at-yielded-time", S::b_close(call.t, p.t, eps));
        let dt = q.t - p.t;
        for d in 0..dim {
            S::prove("euler/derivative-evaluated-at-yielded-state", S::b_close(call.y[d], p.y[d], eps));
            S::prove_m("euler/update-formula", S::b_close(q.y[d], p.y[d] + dt * call.v[d], eps), S::b_gt((q.y[d] - (p.y[d] + dt * call.v[d])).sabs(), S::lit(1e-4)));
        }
    }
    if run.items.len() >= 2 {
        S::control("euler");
    }
}

fn axpy<S: Sc>(y: &[S], h: S, k: &[S]) -> Vec<S> {
    y.iter().zip(k).map(|(a, b)| *a + h * *b).collect()
}

fn all_close<S: Sc>(a: &[S], b: &[S], eps: S) -> S::Bl {
    let mut c = S::b_const(true);
    for (x, y) in a.iter().zip(b) {
        c = S::b_and(c, S::b_close(*x, *y, eps));
    }
    c
}

/// is `item` one classical RK4 step from `prev`, with all four stage derivatives found in the call log?
pub fn rk4_step_ok<S: Sc>(calls: &[Call<S>], prev: &(S, Vec<S>), item: &(S, Vec<S>)) -> Option<S::Bl> {
    let h = item.0 - prev.0;
    let half = S::rat(1, 2);
    let k1 = lookup(calls, prev.0, &prev.1)?;
    let k2 = lookup(calls, prev.0 + half * h, &axpy(&prev.1, half * h, &k1))?;
    let k3 = lookup(calls, prev.0 + half * h, &axpy(&prev.1, half * h, &k2))?;
    let k4 = lookup(calls, prev.0 + h, &axpy(&prev.1, h, &k3))?;
    let ynew: Vec<S> = (0..prev.1.len()).map(|d| prev.1[d] + h * S::rat(1, 6) * (k1[d] + S::lit(2.0) * k2[d] + S::lit(2.0) * k3[d] + k4[d])).collect();
    Some(all_close(&item.1, &ynew, S::lit(1e-9)))
}

pub fn adams_coeffs(kind: Kind) -> (Vec<(i64, i64)>, Vec<(i64, i64)>) {
    // (Adams-Bashforth weights newest first, Adams-Moulton weights implicit first)
    match kind {
        Kind::Adams5 => (vec![(55, 24), (-59, 24), (37, 24), (-9, 24)], vec![(251, 720), (646, 720), (-264, 720), (106, 720), (-19, 720)]),
        _ => (vec![(3, 2), (-1, 2)], vec![(5, 12), (8, 12), (-1, 12)]),
    }
}

/// Adams: every yielded point is a classical RK4 step from the previous point, or the
/// AB-predict / AM-correct update of the preceding equally spaced points with estimate within tolerance.
fn adams<S: Sc>(kind: Kind, items: usize, ratio: f64) {
    let (ab, am) = adams_coeffs(kind);
    let s = ab.len(); // number of preceding points used
    let c = conf_inputs::<S>(1, YB);
    assume_valid(&c);
    S::assume(S::b_le(c.dt_max, c.dt_min * S::lit(ratio)));
    let log = new_log::<S>();
    let run = run_d1(kind, &c, tape_rhs(log.clone(), VB, None), items, &log, 0);
    let calls = log.borrow();
    let eps = S::lit(1e-9);
    let mut pts: Vec<(S, Vec<S>)> = vec![(c.t0, c.y0.clone())];
    // predictor value of points certified as predictor-corrector steps (PEC history derivative)
    let mut preds: Vec<Option<Vec<S>>> = vec![None];
    for item in run.items.iter() {
        let it = (item.t, item.y.clone());
        let n = pts.len();
        let prev = pts[n - 1].clone();
        let mut ok = S::b_const(false);
        if let Some(c1) = rk4_step_ok(&calls[..], &prev, &it) {
            ok = S::b_or(ok, c1);
        }
        let mut this_pred: Option<Vec<S>> = None;
        if n >= s {
            let h = it.0 - prev.0;
            let mut spaced = S::b_lt(S::lit(0.0), h);
            for j in (n - s)..(n - 1) {
                spaced = S::b_and(spaced, S::b_close(pts[j + 1].0 - pts[j].0, h, eps));
            }
            // two admissible history conventions: derivative at the corrected value (PECE) or at the predicted value (PEC)
            for pec in [false, true] {
                let mut fs: Vec<Vec<S>> = vec![]; // newest first
                let mut complete = true;
                for i in 0..s {
                    let j = n - 1 - i;
                    let mut v = None;
                    if pec {
                        if let Some(p) = &preds[j] {
                            v = lookup(&calls[..], pts[j].0, p);
                        }
                    }
                    if v.is_none() {
                        v = lookup(&calls[..], pts[j].0, &pts[j].1);
                    }
                    match v {
                        Some(v) => fs.push(v),
                        None => {
                            complete = false;
                            break;
                        }
                    }
                }
                if !complete {
                    continue;
                }
                let mut p = prev.1[0];
                for i in 0..s {
                    p = p + h * r::<S>(ab[i]) * fs[i][0];
                }
                let fi = match lookup(&calls[..], it.0, &[p]) {
                    Some(v) => v,
                    None => continue,
                };
                let mut cor = prev.1[0] + h * r::<S>(am[0]) * fi[0];
                for i in 0..s {
                    cor = cor + h * r::<S>(am[i + 1]) * fs[i][0];
                }
                let est_ok = S::b_le(S::rat(19, 270) * (cor - p).sabs(), c.tol * h * S::lit(1.0 + 1e-6));
                let cand = S::b_and(spaced, S::b_and(S::b_close(it.1[0], cor, eps), est_ok));
                ok = S::b_or(ok, cand);
                this_pred = Some(vec![p]);
            }
        }
        S::reach("adams/item");
        S::prove("multistep/point-is-rk4-start-or-predictor-corrector-step", ok);
        pts.push(it);
        preds.push(this_pred);
    }
    if pts.len() > s + 1 {
        S::reach("adams/beyond-startup");
    }
}

pub fn bdf_coeffs(kind: Kind) -> (Vec<(i64, i64)>, (i64, i64)) {
    // y_{n+1} + sum_j alpha_j y_{n+1-j} = beta h f(t_{n+1}, y_{n+1});  alpha newest first
    match kind {
        Kind::BDF6 => (vec![(-360, 147), (450, 147), (-400, 147), (225, 147), (-72, 147), (10, 147)], (60, 147)),
        _ => (vec![(-4, 3), (1, 3)], (2, 3)),
    }
}

/// BDF: every yielded point is a classical RK4 step from the previous point or satisfies the implicit
/// BDF formula of the advertised order, evaluated at the new time, to within the solver tolerance.
fn bdf<S: Sc>(kind: Kind, items: usize, seed: i64, member: usize, nonautonomous: bool) {
    S::no_div_zero_forks();
    let (alpha, beta) = bdf_coeffs(kind);
    let s = alpha.len();
    let log = new_log::<S>();
    let (c, f, (a, b, cc)) = conf_family_opt::<S, nalgebra::Const<1>>(1, seed, member, log.clone(), nonautonomous);
    S::assume(S::b_lt(c.t0, c.t1));
    let run = run_d1(kind, &c, f, items, &log, 0);
    let calls = log.borrow();
    let fval = |t: S, y: S| S::lit(a) * y + S::lit(b) * t + S::lit(cc);
    let eps = S::lit(1e-9);
    let mut pts: Vec<(S, Vec<S>)> = vec![(c.t0, c.y0.clone())];
    let mut n_bdf = 0;
    for item in run.items.iter() {
        let it = (item.t, item.y.clone());
        let n = pts.len();
        let prev = pts[n - 1].clone();
        let mut ok = S::b_const(false);
        if let Some(c1) = rk4_step_ok(&calls[..], &prev, &it) {
            ok = S::b_or(ok, c1);
        }
        if n >= s {
            let h = it.0 - prev.0;
            let mut spaced = S::b_lt(S::lit(0.0), h);
            for j in (n - s)..(n - 1) {
                spaced = S::b_and(spaced, S::b_close(pts[j + 1].0 - pts[j].0, h, eps));
            }
            let mut res = it.1[0] - h * r::<S>(beta) * fval(it.0, it.1[0]);
            for i in 0..s {
                res = res + r::<S>(alpha[i]) * pts[n - 1 - i].1[0];
            }
            // the iteration stops when the update is below tol: residual <= |1 - beta h a| * tol
            let lim = c.tol * (S::lit(1.0) + (h * r::<S>(beta) * S::lit(a)).sabs()) * S::lit(1.0 + 1e-6) + eps;
            ok = S::b_or(ok, S::b_and(spaced, S::b_le(res.sabs(), lim)));
            n_bdf += 1;
        }
        S::reach("bdf/item");
        S::prove("multistep/point-is-rk4-start-or-satisfies-bdf-formula-at-new-time", ok);
        pts.push(it);
    }
    if n_bdf > 0 && run.items.len() > kind.startup() {
        S::reach("bdf/beyond-startup");
    }
}

pub fn run(pr: &mut PropRun, t: &Tier) {
    pr.funcs(&[
        "ivp::Euler::{builder,solve}",
        "ivp::EulerSolver::step",
        "ivp::rk::RungeKutta::{builder,solve}",
        "ivp::rk::RungeKuttaSolver::step",
        "ivp::rk::RKCoefficients45",
        "ivp::rk::RK23Coefficients",
        "ivp::IVPIterator::next",
    ]);
    pr.bound("right-hand side = arbitrary function of (t,y) (uninterpreted tape, |f|<=5): every node, weight and matrix entry multiplies an independent symbolic value");
    pr.bound("t0 in [-10,10], t1 in (t0,20], dt_min<=dt_max in [1e-3,1], tol in [1e-8,1], |y0|<=5, all symbolic");
    pr.assume("reference tableaux (Fehlberg 4(5), Bogacki-Shampine 3(2)) are transcribed as exact rationals in the harness; equality up to 1e-9 absolute absorbs double-vs-rational constants");
    let ratio = if t.thorough { 2.0 } else { 1.3 };
    let items = if t.thorough { 3 } else { 2 };
    pr.bound(&format!("first {} yielded points per solver; dt_max <= {} dt_min (bounds consecutive rejections); dimension 1 (and 2 in the thorough tier)", items, ratio));
    pr.outside("dimension > 2; more consecutive rejections than dt_max/dt_min allows; rounding");
    for kind in [Kind::RK45, Kind::RK23] {
        let mut cfg = t.cfg(&format!("C03:rk({},items={},D=1)", kind.name(), items));
        cfg.max_decisions = 24 * items;
        run_h!(pr, cfg, rk, kind, items, ratio, 1);
    }
    // dimension 2: the embedded estimate is a Euclidean norm (a max-norm or 1-norm estimate differs only here)
    for kind in [Kind::RK45, Kind::RK23] {
        let mut cfg = t.cfg(&format!("C03:rk({},items=1,D=2)", kind.name()));
        cfg.max_decisions = 24;
        cfg.query_timeout_s = 30.0;
        run_h!(pr, cfg, rk, kind, 1, 1.0, 2);
    }
    // Adams: dt_max/dt_min >= 2 so that a start-up rejected by its first predictor-corrector step can be
    // retried with a smaller step (the roll-back of time and state is then on the explored paths)
    for kind in [Kind::Adams3, Kind::Adams5] {
        let n = kind.startup() + 2;
        let mut cfg = t.cfg(&format!("C03:adams({},items={})", kind.name(), n));
        cfg.max_decisions = 90;
        cfg.query_timeout_s = 30.0;
        // (Adams5 at ratio 2: measured 200 s with undecided obligations; the roll-back path is covered by Adams3)
        run_h!(pr, cfg, adams, kind, n, if kind == Kind::Adams3 || t.thorough { ratio.max(2.0) } else { ratio });
    }
    let members = if t.thorough { 6 } else { 2 };
    for kind in [Kind::BDF2, Kind::BDF6] {
        for m in 0..members {
            for nonaut in [false, true] {
                let n = kind.startup() + 2;
                let mut cfg = t.cfg(&format!("C03:bdf({},items={},family={},{})", kind.name(), n, m, if nonaut { "nonautonomous" } else { "autonomous" }));
                cfg.max_decisions = 400;
                run_h!(pr, cfg, bdf, kind, n, t.seed, m, nonaut);
            }
        }
    }
    run_h!(pr, t.cfg("C03:euler(items=4,D=1)"), euler, 4, 1);
    run_h!(pr, t.cfg("C03:euler(items=3,D=2)"), euler, 3, 2);
}
