//! C03 — each yielded IVP point is a step of the advertised numerical method.
use super::ivp::*;
use super::Tier;
use crate::ev::PropRun;
use crate::run_h;
use crate::sym::Sc;

const YB: f64 = 5.0;
const VB: f64 = 5.0;

pub struct Tableau {
    pub c: Vec<(i64, i64)>,
    pub a: Vec<Vec<(i64, i64)>>,
    pub b: Vec<(i64, i64)>,
    pub e: Vec<(i64, i64)>,
    /// index of the stage with c = 1 (used to read the attempted step length off the call log)
    pub unit_stage: usize,
}

pub fn fehlberg45() -> Tableau {
    Tableau {
        c: vec![(0, 1), (1, 4), (3, 8), (12, 13), (1, 1), (1, 2)],
        a: vec![
            vec![],
            vec![(1, 4)],
            vec![(3, 32), (9, 32)],
            vec![(1932, 2197), (-7200, 2197), (7296, 2197)],
            vec![(439, 216), (-8, 1), (3680, 513), (-845, 4104)],
            vec![(-8, 27), (2, 1), (-3544, 2565), (1859, 4104), (-11, 40)],
        ],
        b: vec![(25, 216), (0, 1), (1408, 2565), (2197, 4104), (-1, 5), (0, 1)],
        e: vec![(1, 360), (0, 1), (-128, 4275), (-2197, 75240), (1, 50), (2, 55)],
        unit_stage: 4,
    }
}

pub fn bogacki_shampine23() -> Tableau {
    Tableau {
        c: vec![(0, 1), (1, 2), (3, 4), (1, 1)],
        a: vec![vec![], vec![(1, 2)], vec![(0, 1), (3, 4)], vec![(2, 9), (1, 3), (4, 9)]],
        b: vec![(2, 9), (1, 3), (4, 9), (0, 1)],
        // third-order weights minus second-order weights (7/24, 1/4, 1/3, 1/8)
        e: vec![(-5, 72), (1, 12), (1, 9), (-1, 8)],
        unit_stage: 3,
    }
}

fn r<S: Sc>(pq: (i64, i64)) -> S {
    S::rat(pq.0, pq.1)
}

/// Runge-Kutta: every attempted step evaluates the derivative at the published nodes and stage
/// states; every accepted point is the published update and its embedded estimate is within tolerance.
fn rk<S: Sc>(kind: Kind, items: usize, ratio: f64, dim: usize) {
    let tb = if kind == Kind::RK45 { fehlberg45() } else { bogacki_shampine23() };
    let o = tb.c.len();
    let c = conf_inputs::<S>(dim, YB);
    assume_valid(&c);
    S::assume(S::b_le(c.dt_max, c.dt_min * S::lit(ratio)));
    let log = new_log::<S>();
    let run = if dim == 1 {
        run_d1(kind, &c, tape_rhs(log.clone(), VB, None), items, &log, 0)
    } else {
        run_d2(kind, &c, tape_rhs(log.clone(), VB, None), items, &log, 0)
    };
    let calls = log.borrow();
    let eps = S::lit(1e-9);
    let mut prev_t = c.t0;
    let mut prev_y = c.y0.clone();
    let mut ix = 0usize;
    for (n, item) in run.items.iter().enumerate() {
        let ncalls = item.calls - ix;
        S::prove("rk/stage-count-multiple-of-order", S::b_const(ncalls % o == 0 && ncalls > 0));
        if ncalls % o != 0 || ncalls == 0 {
            return;
        }
        let attempts = ncalls / o;
        for a in 0..attempts {
            let ch = &calls[ix + a * o..ix + (a + 1) * o];
            let h = ch[tb.unit_stage].t - prev_t;
            let accepted = a + 1 == attempts;
            for i in 0..o {
                S::prove(&format!("rk/stage{}-time", i), S::b_close(ch[i].t, prev_t + r::<S>(tb.c[i]) * h, eps));
                for d in 0..dim {
                    let mut st = prev_y[d];
                    for j in 0..tb.a[i].len() {
                        st = st + h * r::<S>(tb.a[i][j]) * ch[j].v[d];
                    }
                    S::prove_m(&format!("rk/stage{}-state", i), S::b_close(ch[i].y[d], st, eps), S::b_gt((ch[i].y[d] - st).sabs(), S::lit(1e-4)));
                }
            }
            if accepted {
                S::reach("rk/accepted");
                S::prove("rk/accepted-time", S::b_close(item.t, prev_t + h, eps));
                let mut est_sq = S::lit(0.0);
                for d in 0..dim {
                    let mut ynew = prev_y[d];
                    let mut est = S::lit(0.0);
                    for i in 0..o {
                        ynew = ynew + h * r::<S>(tb.b[i]) * ch[i].v[d];
                        est = est + r::<S>(tb.e[i]) * ch[i].v[d];
                    }
                    S::prove_m("rk/accepted-state", S::b_close(item.y[d], ynew, eps), S::b_gt((item.y[d] - ynew).sabs(), S::lit(1e-4)));
                    est_sq = est_sq + est * est;
                }
                // ||h*sum e_i k_i|| / h <= tol  (squared form avoids the square root)
                let lim = c.tol * S::lit(1.0 + 1e-6);
                S::prove_m("rk/accepted-error-estimate-within-tolerance", S::b_le(est_sq, lim * lim), S::b_gt(est_sq, lim * lim * S::lit(1.21)));
            }
        }
        ix = item.calls;
        prev_t = item.t;
        prev_y = item.y.clone();
        if n == 0 {
            S::control("rk/first-item");
        }
    }
}

/// Euler: y_next = y + dt*f(t, y) for consecutive yielded points
fn euler<S: Sc>(items: usize, dim: usize) {
    let c = conf_inputs::<S>(dim, YB);
    assume_valid(&c);
    let log = new_log::<S>();
    let run = if dim == 1 {
        run_d1(Kind::Euler, &c, tape_rhs(log.clone(), VB, None), items, &log, 0)
    } else {
        run_d2(Kind::Euler, &c, tape_rhs(log.clone(), VB, None), items, &log, 0)
    };
    let calls = log.borrow();
    let eps = S::lit(1e-9);
    for n in 1..run.items.len() {
        let (p, q) = (&run.items[n - 1], &run.items[n]);
        S::reach("euler/step");
        // the derivative call made when p was yielded is call number n-1, evaluated at (p.t, p.y)
        let call = &calls[n - 1];
        S::prove("euler/derivative-evaluated-at-yielded-time", S::b_close(call.t, p.t, eps));
        let dt = q.t - p.t;
        for d in 0..dim {
            S::prove("euler/derivative-evaluated-at-yielded-state", S::b_close(call.y[d], p.y[d], eps));
            S::prove_m("euler/update-formula", S::b_close(q.y[d], p.y[d] + dt * call.v[d], eps), S::b_gt((q.y[d] - (p.y[d] + dt * call.v[d])).sabs(), S::lit(1e-4)));
        }
    }
    if run.items.len() >= 2 {
        S::control("euler");
    }
}

pub fn run(pr: &mut PropRun, t: &Tier) {
    pr.funcs(&[
        "ivp::Euler::{builder,solve}",
        "ivp::EulerSolver::step",
        "ivp::rk::RungeKutta::{builder,solve}",
        "ivp::rk::RungeKuttaSolver::step",
        "ivp::rk::RKCoefficients45",
        "ivp::rk::RK23Coefficients",
        "ivp::IVPIterator::next",
    ]);
    pr.bound("right-hand side = arbitrary function of (t,y) (uninterpreted tape, |f|<=5): every node, weight and matrix entry multiplies an independent symbolic value");
    pr.bound("t0 in [-10,10], t1 in (t0,20], dt_min<=dt_max in [1e-3,1], tol in [1e-8,1], |y0|<=5, all symbolic");
    pr.assume("reference tableaux (Fehlberg 4(5), Bogacki-Shampine 3(2)) are transcribed as exact rationals in the harness; equality up to 1e-9 absolute absorbs double-vs-rational constants");
    let ratio = if t.thorough { 2.0 } else { 1.3 };
    let items = if t.thorough { 3 } else { 2 };
    pr.bound(&format!("first {} yielded points per solver; dt_max <= {} dt_min (bounds consecutive rejections); dimension 1 (and 2 in the thorough tier)", items, ratio));
    pr.outside("dimension > 2; more consecutive rejections than dt_max/dt_min allows; rounding");
    for kind in [Kind::RK45, Kind::RK23] {
        let mut cfg = t.cfg(&format!("C03:rk({},items={},D=1)", kind.name(), items));
        cfg.max_decisions = 24 * items;
        run_h!(pr, cfg, rk, kind, items, ratio, 1);
    }
    if t.thorough {
        for kind in [Kind::RK45, Kind::RK23] {
            let mut cfg = t.cfg(&format!("C03:rk({},items=1,D=2)", kind.name()));
            cfg.max_decisions = 24;
            run_h!(pr, cfg, rk, kind, 1, 1.3, 2);
        }
    }
    run_h!(pr, t.cfg("C03:euler(items=4,D=1)"), euler, 4, 1);
    run_h!(pr, t.cfg("C03:euler(items=3,D=2)"), euler, 3, 2);
}
