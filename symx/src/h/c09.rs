//! C09 — adaptive quadrature results are within tolerance of the true integral (on classes where
//! the routine's estimator is provably reliable).
use super::c10::{call_integrator, moment, Fam};
use super::util::*;
use super::Tier;
use crate::ev::PropRun;
use crate::run_h;
use crate::sym::Sc;
use bacon_sci::integrate::{integrate, integrate_fixed, integrate_gaussian, integrate_simpson};
use num_complex::Complex;

const CB: f64 = 5.0;

fn interval(seed: i64, m: usize) -> (f64, f64) {
    let mut g = Lcg::new(seed * 53 + m as i64);
    let len = [0.05, 0.5, 1.7, 4.0][m % 4] * g.range(0.9, 1.0);
    let len = (len * 1000.0).round() / 1000.0;
    let a = g.range_r(-5.0, 5.0 - len, 2);
    (a, ((a + len) * 1000.0).round() / 1000.0)
}

fn exact_integral<S: Sc>(c: &[S], a: f64, b: f64) -> S {
    let mut acc = S::lit(0.0);
    for k in 0..c.len() {
        let kk = (k + 1) as i32;
        acc = acc + c[k] * S::lit((b.powi(kk) - a.powi(kk)) / kk as f64);
    }
    acc
}

/// two-consecutive-agreement Gaussian integrators: no return before a rule that is exact for degree <= 3
fn gaussian_family<S: Sc>(fam: Fam) {
    let c = inputs::<S>("c", 4, -CB, CB);
    let tol = S::input("tol", 1e-11, 1e-3);
    let cc = c.clone();
    let res = call_integrator(fam, move |x: S| horner(&cc, x), tol);
    let mut exact = S::lit(0.0);
    for k in 0..4 {
        exact = exact + c[k] * S::lit(moment(fam, k));
    }
    S::reach("gaussian-family");
    match res {
        Ok(v) => {
            S::reach("ok");
            S::prove_m("result-within-tolerance-of-weighted-integral", S::b_close(v, exact, tol * S::lit(2.0) + S::lit(1e-12)), S::b_gt((v - exact).sabs(), tol * S::lit(100.0) + S::lit(1e-6)));
        }
        Err(_) => S::prove("returns-ok-on-the-reliable-class", S::b_const(false)),
    }
}

fn gauss_legendre_interval<S: Sc>(seed: i64, m: usize, complex: bool) {
    let (a, b) = interval(seed, m);
    let c = inputs::<S>("c", 4, -CB, CB);
    let d = inputs::<S>("d", 4, -CB, CB);
    let tol = S::input("tol", 1e-11, 1e-3);
    S::reach("gauss-legendre");
    if complex {
        let (cc, dd) = (c.clone(), d.clone());
        let res: Result<Complex<S>, String> = integrate_gaussian(S::lit(a), S::lit(b), move |x: S| Complex::new(horner(&cc, x), horner(&dd, x)), tol);
        match res {
            Ok(v) => {
                S::prove("complex/real-part-within-tolerance", S::b_close(v.re, exact_integral(&c, a, b), tol * S::lit(2.0) + S::lit(1e-10)));
                S::prove("complex/imaginary-part-within-tolerance", S::b_close(v.im, exact_integral(&d, a, b), tol * S::lit(2.0) + S::lit(1e-10)));
            }
            Err(_) => S::prove("returns-ok-on-the-reliable-class", S::b_const(false)),
        }
    } else {
        let cc = c.clone();
        let res: Result<S, String> = integrate_gaussian(S::lit(a), S::lit(b), move |x: S| horner(&cc, x), tol);
        match res {
            Ok(v) => S::prove_m("result-within-tolerance-of-integral", S::b_close(v, exact_integral(&c, a, b), tol * S::lit(2.0) + S::lit(1e-10)), S::b_gt((v - exact_integral(&c, a, b)).sabs(), tol * S::lit(100.0) + S::lit(1e-6))),
            Err(_) => S::prove("returns-ok-on-the-reliable-class", S::b_const(false)),
        }
    }
}

/// adaptive Simpson on polynomials of degree <= 5 (its Richardson estimator is exact there)
fn simpson<S: Sc>(seed: i64, m: usize, deg: usize, n_max: usize) {
    let (a, b) = interval(seed, m);
    let c = inputs::<S>("c", deg + 1, -CB, CB);
    let tol = S::input("tol", 1e-6, 1e-3);
    let calls = std::cell::RefCell::new(0usize);
    let cc = c.clone();
    let res: Result<S, String> = integrate_simpson(
        S::lit(a),
        S::lit(b),
        |x: S| {
            *calls.borrow_mut() += 1;
            horner(&cc, x)
        },
        tol,
        n_max,
    );
    S::reach("simpson");
    match res {
        Ok(v) => {
            S::reach("simpson/ok");
            let ex = exact_integral(&c, a, b);
            // accepted pieces have |S2 - I| = |S2 - S1|/15 < tol_i/15 and the piece tolerances sum to 10*tol
            S::prove_m("simpson/result-within-tolerance-of-integral", S::b_close(v, ex, tol + S::lit(1e-10)), S::b_gt((v - ex).sabs(), tol * S::lit(20.0) + S::lit(1e-6)));
        }
        Err(_) => {
            S::reach("simpson/err");
        }
    }
    // evaluation count of a correct stack discipline: 3 + 2 per examined piece, at most 2^(n_max+1) pieces
    S::prove("simpson/evaluation-count-bounded", S::b_const(*calls.borrow() <= 3 + 2 * ((1usize << (n_max + 1)) - 1)));
}

/// adaptive Simpson must succeed (and be accurate) when n_max leaves room: for degree <= 5 the estimate
/// shrinks 32-fold per halving while the piece tolerance halves, so |S1+S2-S| < tol_i after at most
/// log16(E0 / (10 tol)) levels, E0 <= 15 on these boxes
fn simpson_succeeds<S: Sc>(seed: i64, deg: usize) {
    let (a, b) = interval(seed, 2);
    let c = inputs::<S>("c", deg + 1, -CB, CB);
    let tol = S::input("tol", 1e-3, 1e-2);
    let cc = c.clone();
    let res: Result<S, String> = integrate_simpson(S::lit(a), S::lit(b), move |x: S| horner(&cc, x), tol, 5);
    S::reach("simpson-succeeds");
    match res {
        Ok(v) => {
            let ex = exact_integral(&c, a, b);
            S::prove_m("simpson/result-within-tolerance-of-integral", S::b_close(v, ex, tol + S::lit(1e-10)), S::b_gt((v - ex).sabs(), tol * S::lit(20.0) + S::lit(1e-6)));
        }
        Err(_) => S::prove("simpson/returns-ok-on-the-reliable-class", S::b_const(false)),
    }
}

/// Romberg with n rows is exact for degree <= 2n-1
fn romberg<S: Sc>(seed: i64, m: usize, n: usize) {
    let (a, b) = interval(seed, m);
    let deg = 2 * n - 1;
    let c = inputs::<S>("c", deg + 1, -1.0, 1.0);
    let cc = c.clone();
    let res: Result<S, String> = integrate_fixed(S::lit(a), S::lit(b), move |x: S| horner(&cc, x), n);
    S::reach("romberg");
    match res {
        Ok(v) => {
            let ex = exact_integral(&c, a, b);
            let scale = (0..=deg).map(|k| (a.abs().max(b.abs())).powi(k as i32 + 1)).sum::<f64>();
            S::prove_m("romberg/exact-for-degree-2n-1", S::b_close(v, ex, S::lit(1e-10 * scale.max(1.0))), S::b_gt((v - ex).sabs(), S::lit(1e-4 * scale.max(1.0))));
        }
        Err(_) => S::prove("romberg/returns-ok", S::b_const(false)),
    }
}

/// tanh-sinh on low-degree polynomials: tolerance-proportional bound for tol >= 1e-8
fn tanh_sinh<S: Sc>(seed: i64, m: usize, deg: usize) {
    let (a, b) = interval(seed, m);
    let c = inputs::<S>("c", deg + 1, -CB, CB);
    let tol = S::input("tol", 1e-8, 1e-3);
    S::no_div_zero_forks();
    let cc = c.clone();
    let res: Result<S, String> = integrate(S::lit(a), S::lit(b), move |x: S| horner(&cc, x), tol);
    S::reach("tanh-sinh");
    match res {
        Ok(v) => {
            S::reach("tanh-sinh/ok");
            let ex = exact_integral(&c, a, b);
            S::prove_m("tanh-sinh/result-within-multiple-of-tolerance", S::b_close(v, ex, tol * S::lit(10.0)), S::b_gt((v - ex).sabs(), tol * S::lit(1000.0)));
        }
        Err(_) => S::prove("tanh-sinh/returns-ok-on-polynomials", S::b_const(false)),
    }
}

/// reversed or empty intervals and negative tolerances give Err (which = 0..3 selects the routine)
fn errors<S: Sc>(which: usize) {
    let a = S::input("a", -5.0, 5.0);
    let b = S::input("b", -5.0, 5.0);
    let tol = S::input("tol", -1e-3, 1e-3);
    let f = |_x: S| S::lit(1.0);
    let bad = S::b_or(S::b_le(b, a), S::b_lt(tol, S::lit(0.0)));
    if which == 0 {
        S::no_div_zero_forks();
    }
    S::reach("errors");
    match which {
        0 => {
            let r: Result<S, String> = integrate(a, b, f, tol);
            if r.is_ok() {
                S::prove("integrate/ok-only-for-proper-interval-and-tolerance", S::b_not(bad));
            }
        }
        1 => {
            let r: Result<S, String> = integrate_simpson(a, b, f, tol, 3);
            if r.is_ok() {
                S::prove("integrate_simpson/ok-only-for-proper-interval-and-tolerance", S::b_not(bad));
            }
        }
        2 => {
            let r: Result<S, String> = integrate_fixed(a, b, f, 3);
            if r.is_ok() {
                S::prove("integrate_fixed/ok-only-for-proper-interval", S::b_lt(a, b));
            } else {
                S::prove("integrate_fixed/err-only-for-improper-interval", S::b_le(b, a));
            }
        }
        _ => {
            let r: Result<S, String> = integrate_gaussian(a, b, f, tol);
            if r.is_ok() {
                S::prove("integrate_gaussian/ok-only-for-proper-interval-and-tolerance", S::b_not(bad));
            }
        }
    }
}

pub fn run(pr: &mut PropRun, t: &Tier) {
    pr.funcs(&[
        "integrate::{integrate,integrate_core}",
        "integrate::{integrate_gaussian,integrate_laguerre,integrate_hermite,integrate_chebyshev,integrate_chebyshev_second}",
        "integrate::integrate_simpson",
        "integrate::integrate_fixed",
    ]);
    pr.bound("class where each claim is a theorem: polynomial integrands with ALL coefficients symbolic -- degree <= 3 for the two-consecutive-agreement Gaussian integrators, degree <= 5 for adaptive Simpson, degree <= 2n-1 for Romberg with n rows, degree <= 2 for tanh-sinh; tolerance symbolic in the property's range; seeded concrete intervals of length 0.05..4 in [-5,5] (symbolic interval for the Err clauses)");
    pr.outside("entire functions of exponential type (transcendental integrands); degrees above the class; tanh-sinh tolerances below 1e-8 (the property itself only claims a weaker power-law bound there)");
    for fam in [Fam::Laguerre, Fam::Hermite, Fam::Chebyshev1, Fam::Chebyshev2] {
        run_h!(pr, t.cfg(&format!("C09:{}(deg<=3)", fam.name())), gaussian_family, fam);
    }
    for m in 0..(if t.thorough { 8 } else { 4 }) {
        run_h!(pr, t.cfg(&format!("C09:gauss-legendre(interval={})", m)), gauss_legendre_interval, t.seed, m, false);
    }
    run_h!(pr, t.cfg("C09:gauss-legendre(interval=1,complex)"), gauss_legendre_interval, t.seed, 1usize, true);
    for (m, deg) in [(1usize, 3usize), (2, 4), (2, 5), (3, 5)] {
        let n_max = if t.thorough { 5 } else { 3 };
        let mut cfg = t.cfg(&format!("C09:simpson(interval={},deg={},n_max={})", m, deg, n_max));
        cfg.max_decisions = 400;
        cfg.max_paths = 1500;
        run_h!(pr, cfg, simpson, t.seed, m, deg, n_max);
    }
    for n in 1..=(if t.thorough { 6 } else { 4 }) {
        run_h!(pr, t.cfg(&format!("C09:romberg(rows={})", n)), romberg, t.seed, n % 4, n);
    }
    for (m, deg) in [(1usize, 0usize), (2, 1), (1, 2)] {
        let mut cfg = t.cfg(&format!("C09:tanh-sinh(interval={},deg={})", m, deg));
        cfg.max_decisions = 300;
        cfg.max_paths = 800;
        run_h!(pr, cfg, tanh_sinh, t.seed, m, deg);
    }
    for deg in [4usize, 5] {
        let mut cfg = t.cfg(&format!("C09:simpson-succeeds(deg={})", deg));
        cfg.max_decisions = 800;
        cfg.max_paths = 3000;
        run_h!(pr, cfg, simpson_succeeds, t.seed, deg);
    }
    for which in 0..4usize {
        let mut cfg = t.cfg(&format!("C09:errors({})", ["integrate", "integrate_simpson", "integrate_fixed", "integrate_gaussian"][which]));
        cfg.max_decisions = 120;
        cfg.max_paths = 300;
        cfg.feas_timeout_s = 2.0;
        run_h!(pr, cfg, errors, which);
    }
}
