//! C18 — orthogonal polynomial constructors return the exact classical polynomials.
use super::Tier;
use crate::ev::PropRun;
use crate::sym::Sc;
use bacon_sci::polynomial::Polynomial;
use bacon_sci::special::{chebyshev, chebyshev_second, hermite, laguerre, legendre};
use num_complex::Complex;

fn gcd(a: i128, b: i128) -> i128 {
    let (mut a, mut b) = (a.abs(), b.abs());
    while b != 0 {
        let t = a % b;
        a = b;
        b = t;
    }
    a.max(1)
}

#[derive(Clone, Copy, Debug)]
struct Fr(i128, i128);
impl Fr {
    fn new(p: i128, q: i128) -> Fr {
        let g = gcd(p, q);
        let (p, q) = (p / g, q / g);
        if q < 0 {
            Fr(-p, -q)
        } else {
            Fr(p, q)
        }
    }
    fn add(self, o: Fr) -> Fr {
        Fr::new(self.0 * o.1 + o.0 * self.1, self.1 * o.1)
    }
    fn mul(self, o: Fr) -> Fr {
        Fr::new(self.0 * o.0, self.1 * o.1)
    }
    fn f64(self) -> f64 {
        self.0 as f64 / self.1 as f64
    }
}

fn shift_mul(p: &[Fr], c: Fr) -> Vec<Fr> {
    // c * x * p
    let mut out = vec![Fr(0, 1)];
    out.extend(p.iter().map(|a| a.mul(c)));
    out
}
fn axpy(a: &[Fr], c: Fr, b: &[Fr]) -> Vec<Fr> {
    let n = a.len().max(b.len());
    (0..n).map(|k| a.get(k).cloned().unwrap_or(Fr(0, 1)).add(b.get(k).cloned().unwrap_or(Fr(0, 1)).mul(c))).collect()
}

#[derive(Clone, Copy, PartialEq, Eq, Debug)]
pub enum Family {
    Legendre,
    Hermite,
    Laguerre,
    Chebyshev,
    ChebyshevSecond,
}

/// classical closed-form coefficients, constant term first, in exact rational arithmetic
fn reference(f: Family, n: usize) -> Vec<Fr> {
    match f {
        Family::Laguerre => {
            let mut out = vec![];
            let mut binom: i128 = 1;
            let mut fact: i128 = 1;
            for k in 0..=n {
                if k > 0 {
                    binom = binom * (n - k + 1) as i128 / k as i128;
                    fact *= k as i128;
                }
                out.push(Fr::new(if k % 2 == 0 { binom } else { -binom }, fact));
            }
            out
        }
        _ => {
            let one = vec![Fr(1, 1)];
            let first = match f {
                Family::Legendre | Family::Chebyshev => vec![Fr(0, 1), Fr(1, 1)],
                _ => vec![Fr(0, 1), Fr(2, 1)],
            };
            if n == 0 {
                return one;
            }
            let (mut p0, mut p1) = (one, first);
            for i in 1..n {
                let next = match f {
                    // (i+1) P_{i+1} = (2i+1) x P_i - i P_{i-1}
                    Family::Legendre => {
                        let t = shift_mul(&p1, Fr::new(2 * i as i128 + 1, i as i128 + 1));
                        axpy(&t, Fr::new(-(i as i128), i as i128 + 1), &p0)
                    }
                    // H_{i+1} = 2x H_i - 2i H_{i-1}
                    Family::Hermite => axpy(&shift_mul(&p1, Fr(2, 1)), Fr(-2 * i as i128, 1), &p0),
                    // T/U_{i+1} = 2x T/U_i - T/U_{i-1}
                    _ => axpy(&shift_mul(&p1, Fr(2, 1)), Fr(-1, 1), &p0),
                };
                p0 = p1;
                p1 = next;
            }
            p1
        }
    }
}

fn construct<S: Sc>(f: Family, n: u32, tol: S) -> Result<Polynomial<S>, String> {
    match f {
        Family::Legendre => legendre(n, tol),
        Family::Hermite => hermite(n, tol),
        Family::Laguerre => laguerre(n, tol),
        Family::Chebyshev => chebyshev(n, tol),
        Family::ChebyshevSecond => chebyshev_second(n, tol),
    }
}
fn construct_c<S: Sc>(f: Family, n: u32, tol: S) -> Result<Polynomial<Complex<S>>, String> {
    match f {
        Family::Legendre => legendre(n, tol),
        Family::Hermite => hermite(n, tol),
        Family::Laguerre => laguerre(n, tol),
        Family::Chebyshev => chebyshev(n, tol),
        Family::ChebyshevSecond => chebyshev_second(n, tol),
    }
}

fn check<S: Sc>(f: Family, n: usize, complex: bool) {
    let tol = S::input("ztol", 1e-14, 1e-6);
    let refc = reference(f, n);
    let scale = refc.iter().map(|c| c.f64().abs()).fold(0.0, f64::max);
    let (order, coefs): (usize, Vec<(S, S)>) = if complex {
        match construct_c::<S>(f, n as u32, tol) {
            Ok(p) => (p.order(), (0..=n + 2).map(|k| (p.get_coefficient(k).re, p.get_coefficient(k).im)).collect()),
            Err(_) => {
                S::prove("constructor-ok-for-admissible-tolerance", S::b_const(false));
                return;
            }
        }
    } else {
        match construct::<S>(f, n as u32, tol) {
            Ok(p) => (p.order(), (0..=n + 2).map(|k| (p.get_coefficient(k), S::lit(0.0))).collect()),
            Err(_) => {
                S::prove("constructor-ok-for-admissible-tolerance", S::b_const(false));
                return;
            }
        }
    };
    S::reach("constructed");
    S::prove("degree-exactly-n", S::b_const(order == n));
    for k in 0..=n + 2 {
        let want = if k <= n { refc[k].f64() } else { 0.0 };
        let slack = S::lit(4e-13 * scale.max(1.0));
        S::prove("coefficients-equal-classical-closed-form", S::b_and(S::b_close(coefs[k].0, S::lit(want), slack), S::b_close(coefs[k].1, S::lit(0.0), slack)));
    }
    S::control("constructed");
}

pub fn run(pr: &mut PropRun, t: &Tier) {
    pr.funcs(&["special::{legendre,hermite,laguerre,chebyshev,chebyshev_second}", "Polynomial::{mul,sub,div_assign,set_tolerance,purge_leading,dft,idft}"]);
    pr.bound("all five families x every n = 0..20 (exhaustive), real and complex coefficient fields; the zero tolerance is symbolic in [1e-14,1e-6] and every comparison against it is decided by the solver (the verdict holds for the whole interval)");
    pr.assume("reference coefficients computed harness-side in exact 128-bit rational arithmetic; coefficient agreement within 4e-13 x the largest coefficient");
    let mut jobs: Vec<super::Job> = vec![];
    for f in [Family::Legendre, Family::Hermite, Family::Laguerre, Family::Chebyshev, Family::ChebyshevSecond] {
        for n in 0..=20usize {
            for complex in [false, true] {
                let mut cfg = t.cfg(&format!("C18:{:?}(n={},{})", f, n, if complex { "complex" } else { "real" }));
                cfg.validate_paths = 1;
                cfg.max_decisions = 2000;
                crate::job!(jobs, cfg, check, f, n, complex);
            }
        }
    }
    super::run_jobs(pr, jobs, t.threads);
}
