//! C08 — Newton-type iterations converge to the nearby root on regular problems.
//! Decided on the sub-class where each method is exact in finitely many steps (affine systems,
//! affine contractions, degree-1 polynomials): no convergence analysis is needed there.
use super::util::*;
use super::Tier;
use crate::ev::PropRun;
use crate::run_h;
use crate::sym::Sc;
use bacon_sci::polynomial::Polynomial;
use bacon_sci::roots::{newton, newton_polynomial, secant, steffensen};
use nalgebra::{SMatrix, SVector};

/// seeded concrete well-conditioned matrix (diagonally dominant)
fn matrix(seed: i64, n: usize, singular: bool) -> Vec<Vec<f64>> {
    let mut g = Lcg::new(seed * 71 + n as i64);
    let mut a = vec![vec![0.0; n]; n];
    for i in 0..n {
        for j in 0..n {
            a[i][j] = if i == j { g.range_r(2.0, 4.0, 1) * if g.unit() < 0.5 { 1.0 } else { -1.0 } } else { g.range_r(-0.9, 0.9, 1) };
        }
    }
    if singular && n >= 2 {
        for j in 0..n {
            a[n - 1][j] = 2.0 * a[0][j];
        }
    } else if singular {
        a[0][0] = 0.0;
    }
    a
}

fn affine<S: Sc, const N: usize>(a: &[Vec<f64>], r: &[S], x: &[S]) -> SVector<S, N> {
    SVector::<S, N>::from_iterator((0..N).map(|i| {
        let mut acc = S::lit(0.0);
        for j in 0..N {
            acc = acc + S::lit(a[i][j]) * (x[j] - r[j]);
        }
        acc
    }))
}

fn jac_of<S: Sc, const N: usize>(a: &[Vec<f64>]) -> SMatrix<S, N, N> {
    SMatrix::<S, N, N>::from_fn(|i, j| S::lit(a[i][j]))
}

#[derive(Clone, Copy, PartialEq, Eq, Debug)]
pub enum Start {
    Symbolic,
    Origin,
    OnRoot,
}

fn newton_affine<S: Sc, const N: usize>(seed: i64, start: Start)
where
    nalgebra::Const<N>: nalgebra::DimMin<nalgebra::Const<N>, Output = nalgebra::Const<N>>,
{
    let a = matrix(seed, N, false);
    let r = inputs::<S>("r", N, -3.0, 3.0);
    let x0: Vec<S> = match start {
        Start::Symbolic => inputs::<S>("x", N, -3.0, 3.0),
        Start::Origin => vec![S::lit(0.0); N],
        Start::OnRoot => r.clone(),
    };
    let tol = S::input("tol", 1e-10, 1e-3);
    let (a1, r1) = (a.clone(), r.clone());
    let a2 = a.clone();
    let res = newton::<S, _, _, N>(&x0, move |x: &[S]| affine::<S, N>(&a1, &r1, x), move |_x: &[S]| jac_of::<S, N>(&a2), tol, 12);
    S::reach("newton");
    match res {
        Ok(x) => {
            for i in 0..N {
                S::prove_m("newton/affine-system-solved-from-any-start", S::b_close(x[i], r[i], tol * S::lit(4.0) + S::lit(1e-9)), S::b_gt((x[i] - r[i]).sabs(), tol * S::lit(100.0) + S::lit(1e-6)));
            }
        }
        Err(_) => S::prove("newton/regular-affine-system-gives-ok", S::b_const(false)),
    }
}

fn secant_affine<S: Sc, const N: usize>(seed: i64, start: Start)
where
    nalgebra::Const<N>: nalgebra::DimMin<nalgebra::Const<N>, Output = nalgebra::Const<N>>,
{
    let a = matrix(seed, N, false);
    let r = inputs::<S>("r", N, -3.0, 3.0);
    let x0: Vec<S> = match start {
        Start::Symbolic => inputs::<S>("x", N, -3.0, 3.0),
        Start::Origin => vec![S::lit(0.0); N],
        Start::OnRoot => r.clone(),
    };
    let tol = S::input("tol", 1e-10, 1e-3);
    let h = S::input("h", 1e-3, 0.1);
    let (a1, r1) = (a.clone(), r.clone());
    let res = secant::<S, _, N>(&x0, move |x: &[S]| affine::<S, N>(&a1, &r1, x), h, tol, 2 * N + 8);
    S::reach("secant");
    match res {
        Ok(x) => {
            for i in 0..N {
                S::prove_m("secant/affine-system-solved-from-any-start", S::b_close(x[i], r[i], tol * S::lit(4.0) + S::lit(1e-9)), S::b_gt((x[i] - r[i]).sabs(), tol * S::lit(100.0) + S::lit(1e-6)));
            }
        }
        Err(_) => S::prove("secant/regular-affine-system-gives-ok", S::b_const(false)),
    }
}

fn singular<S: Sc, const N: usize>(seed: i64)
where
    nalgebra::Const<N>: nalgebra::DimMin<nalgebra::Const<N>, Output = nalgebra::Const<N>>,
{
    let a = matrix(seed, N, true);
    let r = inputs::<S>("r", N, -3.0, 3.0);
    let x0 = inputs::<S>("x", N, -3.0, 3.0);
    // off the (affine) solution set: the start is not already a root
    S::assume(S::b_ge((x0[0] - r[0]).sabs(), S::lit(0.5)));
    let (a1, r1) = (a.clone(), r.clone());
    let a2 = a.clone();
    let res = newton::<S, _, _, N>(&x0, move |x: &[S]| affine::<S, N>(&a1, &r1, x), move |_x: &[S]| jac_of::<S, N>(&a2), S::lit(1e-6), 12);
    S::prove("newton/singular-jacobian-gives-err", S::b_const(res.is_err()));
    let (a3, r3) = (a.clone(), r.clone());
    let res2 = secant::<S, _, N>(&x0, move |x: &[S]| affine::<S, N>(&a3, &r3, x), S::lit(0.01), S::lit(1e-6), 12);
    S::prove("secant/singular-jacobian-gives-err", S::b_const(res2.is_err()));
}

fn contraction<S: Sc>(x: S) -> S {
    S::input("ca", -0.9, 0.9) * x + S::input("cb", -2.0, 2.0)
}

fn steffensen_affine<S: Sc>(on_fixed_point: bool) {
    let a = S::input("ca", -0.9, 0.9);
    let b = S::input("cb", -2.0, 2.0);
    let fixed = b / (S::lit(1.0) - a);
    let x0 = if on_fixed_point { fixed } else { S::input("x0", -3.0, 3.0) };
    let tol = S::input("tol", 1e-13, 1e-3);
    let res = steffensen::<S>(x0, contraction::<S>, tol, 8);
    S::reach("steffensen");
    match res {
        Ok(x) => S::prove_m("steffensen/affine-contraction-fixed-point", S::b_close(x, fixed, tol * S::lit(4.0) + S::lit(1e-12)), S::b_gt((x - fixed).sabs(), tol * S::lit(100.0) + S::lit(1e-6))),
        Err(_) => S::prove("steffensen/contraction-gives-ok", S::b_const(false)),
    }
}

fn newton_poly_linear<S: Sc>(start: Start) {
    let lead = S::input("a", 0.5, 3.0);
    let r = S::input("r", -3.0, 3.0);
    let x0 = match start {
        Start::Symbolic => S::input("x0", -3.0, 3.0),
        Start::Origin => S::lit(0.0),
        Start::OnRoot => r,
    };
    let tol = S::input("tol", 1e-10, 1e-3);
    let p = Polynomial::from_slice(&[lead, -lead * r]);
    let res = newton_polynomial(x0, &p, tol, 8);
    S::reach("newton-polynomial");
    match res {
        Ok(x) => S::prove_m("newton_polynomial/degree-1-root-from-any-start", S::b_close(x, r, tol * S::lit(4.0) + S::lit(1e-9)), S::b_gt((x - r).sabs(), tol * S::lit(100.0) + S::lit(1e-6))),
        Err(_) => S::prove("newton_polynomial/simple-root-gives-ok", S::b_const(false)),
    }
}


/// genuinely non-linear members: f(x) = (x-r)(1 + c(x-r)) in one dimension, concrete curvature c and root r (seeded:
/// at the origin, of order one, far from the origin), start r + delta with |c delta| <= 0.1 (inside the
/// quadratic-convergence region) and tolerance symbolic.  The iterates are rational functions of delta; the solver
/// decides the stopping tests and the accuracy of the returned point.  method: 0 newton, 1 secant, 2 newton_polynomial
fn quadratic_1d<S: Sc>(method: u8, c: f64, root: f64, cap: usize) {
    let cc = S::lit(c);
    let r = S::lit(root);
    S::no_div_zero_forks();
    let d = S::input("delta", -0.2, 0.2);
    let tol = S::input("tol", 1e-10, 1e-3);
    let x0 = r + d;
    let one = S::lit(1.0);
    let f = move |x: &[S]| {
        let e = x[0] - r;
        SVector::<S, 1>::new(e * (one + cc * e))
    };
    let res: Result<S, String> = match method {
        0 => newton::<S, _, _, 1>(&[x0], f, move |x: &[S]| SMatrix::<S, 1, 1>::new(one + S::lit(2.0) * cc * (x[0] - r)), tol, 10).map(|v| v[0]),
        // (Broyden's inverse-Jacobian update nests quickly: two loop iterations are encoded in the quick tier, three in the thorough tier, the iteration cap is
        //  then an accepted outcome)
        1 => secant::<S, _, 1>(&[x0], f, S::lit(0.0078125), tol, if cap > 0 { cap } else { 4 }).map(|v| v[0]),
        _ => {
            // (x-r)(1 + c(x-r)) = c x^2 + (1 - 2 c r) x + (c r^2 - r)
            let p = Polynomial::from_slice(&[cc, one - S::lit(2.0) * cc * r, cc * r * r - r]);
            newton_polynomial(x0, &p, tol, 10)
        }
    };
    S::reach("quadratic-1d");
    let name = ["newton", "secant", "newton_polynomial"][method as usize];
    match res {
        Ok(x) => {
            // "a small multiple of the tolerance": absolute for roots of moderate size, relative to |r| beyond 1
            // (Newton's documented test is relative to the iterate, the secant method's is absolute)
            let unit = if method != 1 { tol * r.sabs().smax(one) } else { tol };
            S::prove_m(
                &format!("{}/quadratic-returned-point-within-small-multiple-of-tolerance", name),
                S::b_le((x - r).sabs(), unit * S::lit(4.0) + S::lit(1e-9)),
                S::b_gt((x - r).sabs(), unit * S::lit(50.0) + S::lit(1e-6)),
            );
        }
        Err(e) => {
            if !(method == 1 && e.contains("Maximum iterations")) {
                S::prove(&format!("{}/start-in-convergence-region-gives-ok", name), S::b_const(false))
            }
        }
    }
}

fn newton1<S: Sc>(seed: i64, st: Start) {
    newton_affine::<S, 1>(seed, st)
}
fn newton2<S: Sc>(seed: i64, st: Start) {
    newton_affine::<S, 2>(seed, st)
}
fn newton3<S: Sc>(seed: i64, st: Start) {
    newton_affine::<S, 3>(seed, st)
}
fn secant1<S: Sc>(seed: i64, st: Start) {
    secant_affine::<S, 1>(seed, st)
}
fn secant2<S: Sc>(seed: i64, st: Start) {
    secant_affine::<S, 2>(seed, st)
}
fn secant3<S: Sc>(seed: i64, st: Start) {
    secant_affine::<S, 3>(seed, st)
}
fn singular1<S: Sc>(seed: i64) {
    singular::<S, 1>(seed)
}
fn singular2<S: Sc>(seed: i64) {
    singular::<S, 2>(seed)
}

pub fn run(pr: &mut PropRun, t: &Tier) {
    pr.funcs(&["roots::newton", "roots::secant", "roots::jac_finite_diff", "roots::steffensen", "roots::newton_polynomial", "nalgebra LU solve / try_inverse as used by them"]);
    pr.bound("finitely-exact sub-class: affine systems A(x-r) with seeded concrete well-conditioned A (dimension 1..3), root r, start, tolerance and finite-difference width symbolic (starts: arbitrary, the origin, exactly on the root); affine contractions a*x+b with |a|<=0.9 symbolic for Steffensen (tolerance down to 1e-13); degree-1 polynomials with symbolic coefficients for newton_polynomial; singular A gives Err; genuinely non-linear members in one dimension: f(x) = (x-r)(1+c(x-r)) with seeded concrete curvature and root (at the origin, of order one, 1000, -65536), start r+delta (|delta| <= 0.2) and tolerance symbolic, for newton, newton_polynomial (all iterations) and secant (2 loop iterations quick, 3 thorough; the iteration cap is then an accepted outcome): returned point within 4 x tolerance (relative to max(1,|r|) for the Newton variants, whose test is relative)");
    pr.outside("non-linear systems of dimension >= 2, non-polynomial non-linearities, basins of attraction, polynomials of degree >= 3 and muller_polynomial: their iterates are nested rational / complex-square-root functions of the inputs with no finite-step exactness for a solver to decide");
    for start in [Start::Symbolic, Start::Origin, Start::OnRoot] {
        let mut cfg = t.cfg(&format!("C08:newton(S=1,{:?})", start));
        cfg.max_decisions = 200;
        run_h!(pr, cfg, newton1, t.seed, start);
        // (S=2 with a fully symbolic start: the stopping rule compares square roots of two-term sums, measured 4 min)
        if start != Start::Symbolic || t.thorough {
            let mut cfg = t.cfg(&format!("C08:newton(S=2,{:?})", start));
            cfg.max_decisions = 200;
            run_h!(pr, cfg, newton2, t.seed, start);
        }
        let mut cfg = t.cfg(&format!("C08:secant(S=1,{:?})", start));
        cfg.max_decisions = 300;
        run_h!(pr, cfg, secant1, t.seed, start);
        let mut cfg = t.cfg(&format!("C08:secant(S=2,{:?})", start));
        cfg.max_decisions = 400;
        run_h!(pr, cfg, secant2, t.seed, start);
        let mut cfg = t.cfg(&format!("C08:newton_polynomial(degree 1,{:?})", start));
        cfg.max_decisions = 200;
        run_h!(pr, cfg, newton_poly_linear, start);
    }
    if t.thorough {
        for start in [Start::Symbolic, Start::Origin, Start::OnRoot] {
            let mut cfg = t.cfg(&format!("C08:newton(S=3,{:?})", start));
            cfg.max_decisions = 300;
            run_h!(pr, cfg, newton3, t.seed, start);
            let mut cfg = t.cfg(&format!("C08:secant(S=3,{:?})", start));
            cfg.max_decisions = 600;
            run_h!(pr, cfg, secant3, t.seed, start);
        }
    }
    let mut jobs: Vec<super::Job> = vec![];
    for (mi, m) in ["newton", "secant", "newton_polynomial"].iter().enumerate() {
        for (c, root) in [(0.5, 0.0), (-0.375, 0.8125), (0.5, -0.06597518920898438), (-0.375, 1000.0), (0.5, -65536.0)] {
            let mut cfg = t.cfg(&format!("C08:quadratic-1d({},c={},root={})", m, c, root));
            cfg.max_decisions = 200;
            cfg.query_timeout_s = if t.thorough { 120.0 } else { 20.0 };
            let (mi8, cap) = (mi as u8, if t.thorough { 5usize } else { 4usize });
            crate::job!(jobs, cfg, quadratic_1d, mi8, c, root, cap);
        }
    }
    super::run_jobs(pr, jobs, t.threads);
    run_h!(pr, t.cfg("C08:singular(S=1)"), singular1, t.seed);
    run_h!(pr, t.cfg("C08:singular(S=2)"), singular2, t.seed);
    for on in [false, true] {
        let mut cfg = t.cfg(&format!("C08:steffensen(affine contraction,{})", if on { "start on the fixed point" } else { "arbitrary start" }));
        cfg.max_decisions = 200;
        run_h!(pr, cfg, steffensen_affine, on);
    }
}
