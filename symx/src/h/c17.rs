//! C17 — least-squares fitting returns the least-squares solution.
use super::util::*;
use super::Tier;
use crate::ev::PropRun;
use crate::run_h;
use crate::sym::Sc;
use bacon_sci::optimize::{curve_fit, curve_fit_jac, linear_fit, CurveFitParams};
use nalgebra::SVector;
use std::cell::RefCell;

const YB: f64 = 5.0;

fn abscissae(seed: i64, n: usize) -> Vec<f64> {
    let mut g = Lcg::new(seed * 19 + n as i64);
    let mut xs: Vec<f64> = vec![];
    while xs.len() < n {
        let x = g.range_r(-2.0, 2.0, 2);
        if xs.iter().all(|y| (x - *y).abs() >= 0.05) {
            xs.push(x);
        }
    }
    xs
}

/// normal equations, exact-line reproduction and order independence of linear_fit
fn linear<S: Sc>(seed: i64, n: usize, symbolic_x: bool) {
    let xs: Vec<S> = if symbolic_x {
        let v = inputs::<S>("x", n, -2.0, 2.0);
        // a well-conditioned design: the abscissae are spread
        let mut sx = S::lit(0.0);
        let mut sxx = S::lit(0.0);
        for x in v.iter() {
            sx = sx + *x;
            sxx = sxx + *x * *x;
        }
        S::assume(S::b_ge(S::lit(n as f64) * sxx - sx * sx, S::lit(0.5)));
        v
    } else {
        abscissae(seed, n).into_iter().map(S::lit).collect()
    };
    let ys = inputs::<S>("y", n, -YB, YB);
    let p = match linear_fit(&xs, &ys) {
        Ok(p) => p,
        Err(_) => {
            S::prove("linear_fit/ok-on-equal-lengths", S::b_const(false));
            return;
        }
    };
    S::reach("linear_fit");
    S::prove("linear_fit/returns-a-line", S::b_const(p.order() == 1));
    let (b, a) = (p.get_coefficient(0), p.get_coefficient(1));
    let (mut r0, mut r1) = (S::lit(0.0), S::lit(0.0));
    for i in 0..n {
        let res = ys[i] - (a * xs[i] + b);
        r0 = r0 + res;
        r1 = r1 + res * xs[i];
    }
    let tol = S::lit(1e-8 * n as f64);
    S::prove_m("linear_fit/residuals-orthogonal-to-constants", S::b_le(r0.sabs(), tol), S::b_gt(r0.sabs(), S::lit(1e-3)));
    S::prove_m("linear_fit/residuals-orthogonal-to-x", S::b_le(r1.sabs(), tol), S::b_gt(r1.sabs(), S::lit(1e-3)));
    // order independence: reversed and rotated data give the same line
    let rx: Vec<S> = xs.iter().rev().cloned().collect();
    let ry: Vec<S> = ys.iter().rev().cloned().collect();
    if let Ok(q) = linear_fit(&rx, &ry) {
        S::prove("linear_fit/independent-of-point-order", S::b_and(S::b_close(q.get_coefficient(0), b, S::lit(1e-8)), S::b_close(q.get_coefficient(1), a, S::lit(1e-8))));
    }
}

fn linear_exact<S: Sc>(seed: i64, n: usize) {
    let xs: Vec<S> = abscissae(seed, n).into_iter().map(S::lit).collect();
    let (al, be) = (S::input("slope", -YB, YB), S::input("intercept", -YB, YB));
    let ys: Vec<S> = xs.iter().map(|x| al * *x + be).collect();
    let p = linear_fit(&xs, &ys).unwrap();
    S::reach("linear_fit-exact");
    S::prove_m("linear_fit/reproduces-exactly-linear-data", S::b_and(S::b_close(p.get_coefficient(1), al, S::lit(1e-8)), S::b_close(p.get_coefficient(0), be, S::lit(1e-8))), S::b_gt((p.get_coefficient(1) - al).sabs(), S::lit(1e-3)));
    S::prove("linear_fit/mismatched-lengths-err", S::b_const(linear_fit(&xs, &ys[..n - 1]).is_err()));
}

type P2<S> = SVector<S, 2>;

/// run `f`, swallowing only the harness's own early stop (a CutPath whose message starts with `tag`)
fn until_stop<R>(tag: &str, f: impl FnOnce() -> R) -> Option<R> {
    match std::panic::catch_unwind(std::panic::AssertUnwindSafe(f)) {
        Ok(r) => Some(r),
        Err(p) => {
            if let Some(c) = p.downcast_ref::<crate::eng::CutPath>() {
                if c.0.starts_with(tag) {
                    return None;
                }
            }
            std::panic::resume_unwind(p)
        }
    }
}

fn is_trial<S: Sc>(p: &P2<S>, t0: &[S], h: S) -> bool {
    // neither the start nor a finite-difference probe of it
    for d in 0..2 {
        let same = S::probably_equal(p[d], t0[d]);
        let up = S::probably_equal(p[d], t0[d] + h);
        let dn = S::probably_equal(p[d], t0[d] - h);
        if !(same || up || dn) {
            return true;
        }
    }
    false
}

/// Levenberg-Marquardt, model linear in its parameters (theta0 + theta1*x): the first trial parameter vector
/// handed to the model is the damped normal-equation step with the TRUE Jacobian, for both variants
fn lm_first_step<S: Sc>(seed: i64, analytic: bool) {
    let xs: Vec<S> = abscissae(seed, 4).into_iter().map(S::lit).collect();
    let mut gy = Lcg::new(seed * 11 + 5);
    // finite-difference variant: seeded concrete ordinates (its Jacobian depends on the parameters as long as the
    // known defect is present, which makes fully symbolic data minutes per query); analytic variant: symbolic ordinates
    let ys: Vec<S> = if analytic { inputs::<S>("y", 4, -YB, YB) } else { (0..4).map(|_| S::lit(gy.range_r(-4.0, 4.0, 1))).collect() };
    let t0 = inputs::<S>("theta", 2, -2.0, 2.0);
    let mut g = Lcg::new(seed * 7 + 3);
    let damping = g.range_r(0.5, 3.0, 1);
    let mult = g.range_r(1.2, 2.5, 1);
    let h = 0.125;
    let prm: CurveFitParams<S> = CurveFitParams { damping: S::lit(damping), tolerance: S::lit(1e-6), h: S::lit(h), damping_mult: S::lit(mult) };
    let log: RefCell<Vec<P2<S>>> = RefCell::new(vec![]);
    let budget = 60usize;
    let model = |x: S, p: &P2<S>| -> S {
        log.borrow_mut().push(*p);
        if log.borrow().len() > budget {
            // only the beginning of the iteration is under test
            std::panic::panic_any(crate::eng::CutPath("model call budget (first LM step observed)".into()));
        }
        p[0] + p[1] * x
    };
    let _ = until_stop("model call budget", || {
        if analytic {
            let _ = curve_fit_jac(model, &xs, &ys, &t0, |x: S, _p: &P2<S>| P2::<S>::new(S::lit(1.0), x), &prm);
        } else {
            let _ = curve_fit(model, &xs, &ys, &t0, &prm);
        }
    });
    let calls = log.borrow();
    let trial = calls.iter().find(|p| is_trial(p, &t0, S::lit(h)));
    S::reach("lm");
    let trial = match trial {
        Some(t) => *t,
        None => {
            S::prove("lm/a-trial-step-is-evaluated", S::b_const(false));
            return;
        }
    };
    // reference: (J^T J o (1 + lambda)) delta = J^T r, J = [1, x_i]
    let n = xs.len();
    let (mut s1, mut sx, mut sxx) = (S::lit(0.0), S::lit(0.0), S::lit(0.0));
    let (mut b0, mut b1) = (S::lit(0.0), S::lit(0.0));
    for i in 0..n {
        let r = ys[i] - (t0[0] + t0[1] * xs[i]);
        s1 = s1 + S::lit(1.0);
        sx = sx + xs[i];
        sxx = sxx + xs[i] * xs[i];
        b0 = b0 + r;
        b1 = b1 + r * xs[i];
    }
    let lam = S::lit(1.0 + damping);
    let (m00, m01, m11) = (s1 * lam, sx, sxx * lam);
    let det = m00 * m11 - m01 * m01;
    let d0 = (b0 * m11 - b1 * m01) / det;
    let d1 = (b1 * m00 - b0 * m01) / det;
    S::prove_m("lm/first-trial-is-damped-normal-equation-step(0)", S::b_close(trial[0], t0[0] + d0, S::lit(1e-7)), S::b_gt((trial[0] - (t0[0] + d0)).sabs(), S::lit(1e-3)));
    S::prove_m("lm/first-trial-is-damped-normal-equation-step(1)", S::b_close(trial[1], t0[1] + d1, S::lit(1e-7)), S::b_gt((trial[1] - (t0[1] + d1)).sabs(), S::lit(1e-3)));
}


/// Levenberg-Marquardt damping schedule (analytic Jacobian, model theta0 + theta1*x): the parameter vectors handed to
/// the model are, in order, the start, the trial of the initial damping search, and per main-loop iteration the trials
/// with damping lambda_k and lambda_k / mult.  Observed through the model closure: the SECOND iteration's trials are
/// the damped normal-equation steps from the first iteration's accepted point with lambda_1 = lambda_0 / mult when the
/// reduced-damping trial won (lambda_0 otherwise).  A damping that is never relaxed turns the superlinear
/// convergence on linear models into a linear one with ratio lambda/(1+lambda): budgets of model calls are then
/// exceeded for large initial damping.
fn lm_damping_schedule<S: Sc>(seed: i64, n: usize, damping: f64, mult: f64) {
    let xs: Vec<S> = abscissae(seed, n).into_iter().map(S::lit).collect();
    let ys = inputs::<S>("y", n, -YB, YB);
    let t0 = inputs::<S>("theta", 2, -2.0, 2.0);
    let prm: CurveFitParams<S> = CurveFitParams { damping: S::lit(damping), tolerance: S::lit(1e-9), h: S::lit(0.125), damping_mult: S::lit(mult) };
    let log: RefCell<Vec<P2<S>>> = RefCell::new(vec![]);
    let budget = 7 * n;
    let model = |x: S, p: &P2<S>| -> S {
        log.borrow_mut().push(*p);
        if log.borrow().len() > budget {
            std::panic::panic_any(crate::eng::CutPath("model call budget (two LM iterations observed)".into()));
        }
        p[0] + p[1] * x
    };
    let _ = until_stop("model call budget", || {
        let _ = curve_fit_jac(model, &xs, &ys, &t0, |x: S, _p: &P2<S>| P2::<S>::new(S::lit(1.0), x), &prm);
    });
    // distinct consecutive parameter vectors
    let calls = log.borrow();
    let mut groups: Vec<P2<S>> = vec![];
    for p in calls.iter() {
        if groups.last().map_or(true, |q| q[0].ident() != p[0].ident() || q[1].ident() != p[1].ident()) {
            groups.push(*p);
        }
    }
    if groups.len() < 6 {
        // converged (or stopped) before a second iteration: nothing to observe on this path
        return;
    }
    S::reach("lm-second-iteration");
    let (a1, b1, a2, b2) = (groups[2], groups[3], groups[4], groups[5]);
    let resid = |p: &P2<S>| {
        let mut r = S::lit(0.0);
        for i in 0..n {
            let d = ys[i] - (p[0] + p[1] * xs[i]);
            r = r + d * d;
        }
        r
    };
    let step = |p: &P2<S>, lam: f64| -> P2<S> {
        let (mut s1, mut sx, mut sxx) = (S::lit(0.0), S::lit(0.0), S::lit(0.0));
        let (mut g0, mut g1) = (S::lit(0.0), S::lit(0.0));
        for i in 0..n {
            let r = ys[i] - (p[0] + p[1] * xs[i]);
            s1 = s1 + S::lit(1.0);
            sx = sx + xs[i];
            sxx = sxx + xs[i] * xs[i];
            g0 = g0 + r;
            g1 = g1 + r * xs[i];
        }
        let l = S::lit(1.0 + lam);
        let (m00, m01, m11) = (s1 * l, sx, sxx * l);
        let det = m00 * m11 - m01 * m01;
        P2::<S>::new(p[0] + (g0 * m11 - g1 * m01) / det, p[1] + (g1 * m00 - g0 * m01) / det)
    };
    let reduced_won = resid(&b1) < resid(&a1);
    let (p1, lam1) = if reduced_won { (b1, damping / mult) } else { (a1, damping) };
    let (ra, rb) = (step(&p1, lam1), step(&p1, lam1 / mult));
    for d in 0..2 {
        S::prove_m("lm/second-iteration-trial-uses-the-relaxed-damping", S::b_close(a2[d], ra[d], S::lit(1e-7)), S::b_gt((a2[d] - ra[d]).sabs(), S::lit(1e-4)));
        S::prove_m("lm/second-iteration-reduced-trial-uses-the-relaxed-damping", S::b_close(b2[d], rb[d], S::lit(1e-7)), S::b_gt((b2[d] - rb[d]).sabs(), S::lit(1e-4)));
    }
}

/// data generated by the model, start at the true parameters: both variants terminate and return them
fn lm_fixed_point<S: Sc>(seed: i64, analytic: bool) {
    let xs: Vec<S> = abscissae(seed, 4).into_iter().map(S::lit).collect();
    let t0 = inputs::<S>("theta", 2, -2.0, 2.0);
    let ys: Vec<S> = xs.iter().map(|x| t0[0] + t0[1] * *x).collect();
    let prm: CurveFitParams<S> = CurveFitParams { damping: S::lit(2.0), tolerance: S::input("tol", 1e-12, 1e-6), h: S::lit(0.125), damping_mult: S::lit(1.5) };
    let count = RefCell::new(0usize);
    let model = |x: S, p: &P2<S>| -> S {
        *count.borrow_mut() += 1;
        if *count.borrow() > 400 {
            S::prove("lm/terminates-within-the-model-call-budget", S::b_const(false));
            std::panic::panic_any(crate::eng::CutPath("model call budget".into()));
        }
        p[0] + p[1] * x
    };
    let res = if analytic { curve_fit_jac(model, &xs, &ys, &t0, |x: S, _p: &P2<S>| P2::<S>::new(S::lit(1.0), x), &prm) } else { curve_fit(model, &xs, &ys, &t0, &prm) };
    S::reach("lm-fixed-point");
    match res {
        Ok(p) => S::prove("lm/start-at-the-optimum-returns-it", S::b_and(S::b_close(p[0], t0[0], S::lit(1e-6)), S::b_close(p[1], t0[1], S::lit(1e-6)))),
        Err(_) => S::prove("lm/start-at-the-optimum-gives-ok", S::b_const(false)),
    }
}

/// invalid tolerances, step widths, damping or mismatched lengths give Err
fn lm_errors<S: Sc>(analytic: bool) {
    let xs = [S::lit(0.0), S::lit(1.0), S::lit(2.0)];
    let ys = [S::lit(1.0), S::lit(3.0), S::lit(5.0)];
    let tol = S::input("tol", -1e-3, 1e-3);
    let h = S::input("h", -0.1, 0.1);
    let damping = S::input("damping", -1.0, 1.0);
    let prm: CurveFitParams<S> = CurveFitParams { damping, tolerance: tol, h, damping_mult: S::lit(1.5) };
    let count = RefCell::new(0usize);
    let model = |x: S, p: &P2<S>| -> S {
        *count.borrow_mut() += 1;
        if *count.borrow() > 30 {
            std::panic::panic_any(crate::eng::CutPath("past validation".into()));
        }
        p[0] + p[1] * x
    };
    let t0 = [S::lit(1.0), S::lit(2.0)];
    // the validation happens before the first model call
    let res = until_stop("past validation", || {
        if analytic {
            curve_fit_jac(model, &xs, &ys, &t0, |x: S, _p: &P2<S>| P2::<S>::new(S::lit(1.0), x), &prm).map(|_| ()).map_err(|_| ())
        } else {
            curve_fit(model, &xs, &ys, &t0, &prm).map(|_| ()).map_err(|_| ())
        }
    });
    let started = *count.borrow() > 0;
    S::reach("lm-errors");
    let z = S::lit(0.0);
    if started {
        S::prove("lm/negative-tolerance-rejected-before-any-model-call", S::b_le(z, tol));
        S::prove("lm/negative-damping-rejected-before-any-model-call", S::b_le(z, damping));
        if !analytic {
            S::prove("lm/negative-step-width-rejected-before-any-model-call", S::b_le(z, h));
        }
    } else {
        S::prove("lm/rejection-implies-an-invalid-argument", S::b_const(matches!(res, Some(Err(())))));
    }
    let prm2: CurveFitParams<S> = CurveFitParams { damping: S::lit(2.0), tolerance: S::lit(1e-6), h: S::lit(0.1), damping_mult: S::lit(1.5) };
    let mm = if analytic {
        curve_fit_jac(|x: S, p: &P2<S>| p[0] + p[1] * x, &xs, &ys[..2], &t0, |x: S, _p: &P2<S>| P2::<S>::new(S::lit(1.0), x), &prm2).is_err()
    } else {
        curve_fit(|x: S, p: &P2<S>| p[0] + p[1] * x, &xs, &ys[..2], &t0, &prm2).is_err()
    };
    S::prove("lm/mismatched-lengths-err", S::b_const(mm));
}

pub fn run(pr: &mut PropRun, t: &Tier) {
    pr.funcs(&["optimize::linear_fit", "optimize::{curve_fit,curve_fit_jac,initial_residuals,initial_residuals_exact,jac_finite_differences,jac_analytic}", "nalgebra DMatrix LU solve as used by them"]);
    pr.bound("linear_fit: abscissae and ordinates symbolic for n <= 4 (well-conditioned design assumed), seeded concrete abscissae with symbolic ordinates up to n = 24 (quick) / 60 (thorough); Levenberg-Marquardt: model theta0 + theta1*x on 4 seeded abscissae, ordinates and start symbolic, damping/multiplier seeded: the FIRST trial parameter vector (observed through the model closure) must be the damped normal-equation step with the true Jacobian, for the finite-difference and the analytic variant; start at the optimum returns it; the SECOND iteration's two trial vectors (analytic variant, 3 abscissae, 3 seeded damping/multiplier pairs including damping 500) are the damped normal-equation steps from the first iteration's accepted point with the relaxed damping; argument validation with symbolic tolerance, width and damping");
    pr.outside("Levenberg-Marquardt run to convergence from a start away from the optimum, non-linear models, the agreement of both variants at convergence (measured: the accumulated quadratic path conditions exceed the solver after 3 iterations)");
    for n in [3usize, 4] {
        let mut cfg = t.cfg(&format!("C17:linear_fit(n={},symbolic-x)", n));
        cfg.query_timeout_s = 60.0;
        run_h!(pr, cfg, linear, t.seed, n, true);
    }
    for n in (if t.thorough { vec![3usize, 8, 24, 60] } else { vec![3usize, 8, 24] }) {
        run_h!(pr, t.cfg(&format!("C17:linear_fit(n={})", n)), linear, t.seed, n, false);
        run_h!(pr, t.cfg(&format!("C17:linear_fit-exact(n={})", n)), linear_exact, t.seed, n);
    }
    for (damping, mult) in [(2.0, 1.5), (500.0, 1.5), (0.75, 2.5)] {
        let mut cfg = t.cfg(&format!("C17:lm-damping-schedule(analytic-jacobian,damping={},mult={})", damping, mult));
        cfg.max_decisions = 200;
        cfg.max_paths = 100;
        cfg.query_timeout_s = if t.thorough { 60.0 } else { 15.0 };
        run_h!(pr, cfg, lm_damping_schedule, t.seed, 3, damping, mult);
    }
    for analytic in [false, true] {
        let v = if analytic { "analytic-jacobian" } else { "finite-difference-jacobian" };
        let mut cfg = t.cfg(&format!("C17:lm-first-step({})", v));
        cfg.max_decisions = 200;
        cfg.max_paths = if analytic || t.thorough { 300 } else { 12 };
        cfg.query_timeout_s = if t.thorough { 60.0 } else if analytic { 10.0 } else { 4.0 };
        if !analytic && !t.thorough {
            // (the known Jacobian defect makes this variant non-linear in the parameters: keep its cost bounded)
            cfg.feas_timeout_s = 1.5;
            cfg.wall_budget_s = 40.0;
        }
        run_h!(pr, cfg, lm_first_step, t.seed, analytic);
        let mut cfg = t.cfg(&format!("C17:lm-fixed-point({})", v));
        cfg.max_decisions = 300;
        cfg.max_paths = if analytic || t.thorough { 300 } else { 3 };
        cfg.query_timeout_s = if t.thorough { 60.0 } else if analytic { 10.0 } else { 4.0 };
        if !analytic && !t.thorough {
            // (the known Jacobian defect makes this variant non-linear in the parameters: keep its cost bounded)
            cfg.feas_timeout_s = 1.5;
            cfg.wall_budget_s = 40.0;
        }
        run_h!(pr, cfg, lm_fixed_point, t.seed, analytic);
        let mut cfg = t.cfg(&format!("C17:lm-errors({})", v));
        cfg.max_decisions = 100;
        cfg.max_paths = 200;
        run_h!(pr, cfg, lm_errors, analytic);
    }
}
