//! C15 — Lagrange and Hermite interpolants reproduce their data and are unique.
use super::util::*;
use super::Tier;
use crate::ev::PropRun;
use crate::run_h;
use crate::sym::Sc;
use bacon_sci::interp::{hermite, lagrange};
use bacon_sci::polynomial::Polynomial;
use num_complex::Complex;

const YB: f64 = 5.0;

/// seeded nodes in [-2,2] with pairwise separation >= 0.2, in a seeded order
pub fn nodes(seed: i64, n: usize) -> Vec<f64> {
    let mut g = Lcg::new(seed);
    let mut xs: Vec<f64> = vec![];
    while xs.len() < n {
        let x = g.range_r(-2.0, 2.0, 2);
        if xs.iter().all(|y| (x - *y).abs() >= 0.2) {
            xs.push(x);
        }
    }
    xs
}

fn pow_sum<S: Sc>(c: &[S], x: S) -> S {
    let mut acc = S::lit(0.0);
    let mut xp = S::lit(1.0);
    for ck in c {
        acc = acc + *ck * xp;
        xp = xp * x;
    }
    acc
}

fn deriv_sum<S: Sc>(c: &[S], x: S) -> S {
    let mut acc = S::lit(0.0);
    let mut xp = S::lit(1.0);
    for k in 1..c.len() {
        acc = acc + c[k] * S::lit(k as f64) * xp;
        xp = xp * x;
    }
    acc
}

/// arbitrary symbolic values at concrete seeded nodes: degree bound and reproduction of the data
fn lagrange_data<S: Sc>(seed: i64, n: usize, symbolic_nodes: bool) {
    let xs: Vec<S> = if symbolic_nodes {
        let v = inputs::<S>("x", n, -2.0, 2.0);
        for i in 0..n {
            for j in 0..i {
                S::assume(S::b_ge((v[i] - v[j]).sabs(), S::lit(0.2)));
            }
        }
        v
    } else {
        nodes(seed, n).into_iter().map(S::lit).collect()
    };
    let ys = inputs::<S>("y", n, -YB, YB);
    let ztol = S::input("ztol", 1e-14, 1e-6);
    let p = match lagrange(&xs, &ys, ztol) {
        Ok(p) => p,
        Err(_) => {
            S::prove("lagrange-ok-on-distinct-nodes", S::b_const(false));
            return;
        }
    };
    S::reach("lagrange");
    S::prove("lagrange-degree-at-most-n-1", S::b_const(p.order() <= n.max(1) - 1));
    // zeroing coefficients below ztol perturbs values by at most n*ztol*max|x|^k
    let slack = S::lit(1e-8) + ztol * S::lit((n as f64) * 2f64.powi(n as i32));
    for i in 0..n {
        let v = p.evaluate(xs[i]);
        S::prove_m("lagrange-reproduces-value-at-node", S::b_close(v, ys[i], slack), S::b_gt((v - ys[i]).sabs(), S::lit(1e-3)));
    }
    S::control("lagrange");
}

/// data sampled from a symbolic polynomial of admissible degree: the interpolant is that polynomial,
/// independent of the order of the points
fn lagrange_unique<S: Sc>(seed: i64, n: usize) {
    let xs0 = nodes(seed, n);
    let c = inputs::<S>("c", n, -YB, YB);
    // every true coefficient non-negligible: none of the "coefficient below the zeroing tolerance" branches is feasible
    for ck in c.iter() {
        S::assume(S::b_ge(ck.sabs(), S::lit(0.01)));
    }
    let ztol = S::lit(1e-12);
    let mut perm: Vec<usize> = (0..n).collect();
    let mut g = Lcg::new(seed * 3 + 1);
    let mut results: Vec<Polynomial<S>> = vec![];
    for round in 0..2 {
        if round == 1 {
            for i in (1..n).rev() {
                perm.swap(i, g.below(i + 1));
            }
            if n >= 2 && perm.iter().enumerate().all(|(i, p)| i == *p) {
                perm.swap(0, n - 1);
            }
        }
        let xs: Vec<S> = perm.iter().map(|&i| S::lit(xs0[i])).collect();
        let ys: Vec<S> = xs.iter().map(|x| pow_sum(&c, *x)).collect();
        match lagrange(&xs, &ys, ztol) {
            Ok(p) => results.push(p),
            Err(_) => {
                S::prove("lagrange-ok-on-distinct-nodes", S::b_const(false));
                return;
            }
        }
    }
    S::reach("lagrange-unique");
    let cond = S::lit(1e-7);
    for k in 0..n {
        S::prove_m("lagrange-recovers-polynomial-coefficients", S::b_close(results[0].get_coefficient(k), c[k], cond), S::b_gt((results[0].get_coefficient(k) - c[k]).sabs(), S::lit(1e-3)));
        S::prove("lagrange-independent-of-point-order", S::b_close(results[0].get_coefficient(k), results[1].get_coefficient(k), cond));
    }
}

fn hermite_data<S: Sc>(seed: i64, n: usize) {
    let xs: Vec<S> = nodes(seed, n).into_iter().map(S::lit).collect();
    let ys = inputs::<S>("y", n, -YB, YB);
    let ds = inputs::<S>("d", n, -YB, YB);
    let ztol = S::input("ztol", 1e-14, 1e-6);
    let p = match hermite(&xs, &ys, &ds, ztol) {
        Ok(p) => p,
        Err(_) => {
            S::prove("hermite-ok-on-distinct-nodes", S::b_const(false));
            return;
        }
    };
    S::reach("hermite");
    S::prove("hermite-degree-at-most-2n-1", S::b_const(p.order() <= 2 * n - 1));
    let slack = S::lit(1e-7) + ztol * S::lit((4 * n * n) as f64 * 2f64.powi(2 * n as i32));
    for i in 0..n {
        let (v, d) = p.evaluate_derivative(xs[i]);
        S::prove_m("hermite-reproduces-value-at-node", S::b_close(v, ys[i], slack), S::b_gt((v - ys[i]).sabs(), S::lit(1e-3)));
        S::prove_m("hermite-reproduces-derivative-at-node", S::b_close(d, ds[i], slack), S::b_gt((d - ds[i]).sabs(), S::lit(1e-3)));
    }
}

fn hermite_unique<S: Sc>(seed: i64, n: usize) {
    let xs0 = nodes(seed, n);
    let c = inputs::<S>("c", 2 * n, -YB, YB);
    for ck in c.iter() {
        S::assume(S::b_ge(ck.sabs(), S::lit(0.01)));
    }
    let xs: Vec<S> = xs0.iter().map(|x| S::lit(*x)).collect();
    let ys: Vec<S> = xs.iter().map(|x| pow_sum(&c, *x)).collect();
    let ds: Vec<S> = xs.iter().map(|x| deriv_sum(&c, *x)).collect();
    let p = match hermite(&xs, &ys, &ds, S::lit(1e-12)) {
        Ok(p) => p,
        Err(_) => {
            S::prove("hermite-ok-on-distinct-nodes", S::b_const(false));
            return;
        }
    };
    // reversed order of the points
    let rx: Vec<S> = xs.iter().rev().cloned().collect();
    let ry: Vec<S> = ys.iter().rev().cloned().collect();
    let rd: Vec<S> = ds.iter().rev().cloned().collect();
    let q = hermite(&rx, &ry, &rd, S::lit(1e-12)).unwrap();
    S::reach("hermite-unique");
    let cond = S::lit(1e-6);
    for k in 0..2 * n {
        S::prove_m("hermite-recovers-polynomial-coefficients", S::b_close(p.get_coefficient(k), c[k], cond), S::b_gt((p.get_coefficient(k) - c[k]).sabs(), S::lit(1e-3)));
        S::prove("hermite-independent-of-point-order", S::b_close(p.get_coefficient(k), q.get_coefficient(k), cond));
    }
}

fn lagrange_complex<S: Sc>(seed: i64, n: usize, imaginary_lead: bool) {
    let mut g = Lcg::new(seed * 11 + 5);
    let mut zs: Vec<(f64, f64)> = vec![];
    while zs.len() < n {
        let (a, b) = (g.range_r(-1.4, 1.4, 2), g.range_r(-1.4, 1.4, 2));
        if zs.iter().all(|(x, y)| ((a - x).powi(2) + (b - y).powi(2)).sqrt() >= 0.2) {
            zs.push((a, b));
        }
    }
    let xs: Vec<Complex<S>> = zs.iter().map(|(a, b)| Complex::new(S::lit(*a), S::lit(*b))).collect();
    let mut cr = inputs::<S>("cr", n, -YB, YB);
    let ci = inputs::<S>("ci", n, -YB, YB);
    for (k, ck) in cr.iter().enumerate() {
        if !(imaginary_lead && k + 1 == n) {
            S::assume(S::b_ge(ck.sabs(), S::lit(0.05)));
        }
    }
    if imaginary_lead {
        // a purely imaginary leading coefficient is still a leading coefficient
        cr[n - 1] = S::lit(0.0);
        S::assume(S::b_ge(ci[n - 1].sabs(), S::lit(0.05)));
    }
    // values of the symbolic complex polynomial at the concrete complex nodes (linear in cr, ci)
    let mut yr: Vec<S> = vec![];
    let mut yi: Vec<S> = vec![];
    for (a, b) in zs.iter() {
        let (mut pr_, mut pi_) = (1.0f64, 0.0f64);
        let (mut vr, mut vi) = (S::lit(0.0), S::lit(0.0));
        for k in 0..n {
            vr = vr + cr[k] * S::lit(pr_) - ci[k] * S::lit(pi_);
            vi = vi + cr[k] * S::lit(pi_) + ci[k] * S::lit(pr_);
            let np = pr_ * a - pi_ * b;
            pi_ = pr_ * b + pi_ * a;
            pr_ = np;
        }
        yr.push(vr);
        yi.push(vi);
    }
    let ys: Vec<Complex<S>> = (0..n).map(|k| Complex::new(yr[k], yi[k])).collect();
    let p = match lagrange(&xs, &ys, S::lit(1e-12)) {
        Ok(p) => p,
        Err(_) => {
            S::prove("lagrange-ok-on-distinct-nodes", S::b_const(false));
            return;
        }
    };
    S::reach("lagrange-complex");
    S::prove("complex-lagrange-degree", S::b_const(p.order() == n - 1));
    for i in 0..n {
        let v = p.evaluate(xs[i]);
        S::prove("complex-lagrange-reproduces-value", S::b_and(S::b_close(v.re, yr[i], S::lit(1e-6)), S::b_close(v.im, yi[i], S::lit(1e-6))));
    }
}

fn mismatched<S: Sc>() {
    let xs = [S::lit(0.0), S::lit(1.0), S::lit(2.0)];
    let ys = [S::input("y0", -1.0, 1.0), S::input("y1", -1.0, 1.0)];
    S::prove("lagrange-mismatched-lengths-err", S::b_const(lagrange(&xs, &ys, S::lit(1e-10)).is_err()));
    S::prove("hermite-mismatched-values-err", S::b_const(hermite(&xs, &ys, &[ys[0], ys[1], ys[0]], S::lit(1e-10)).is_err()));
    S::prove("hermite-mismatched-derivatives-err", S::b_const(hermite(&xs, &[ys[0], ys[1], ys[0]], &ys, S::lit(1e-10)).is_err()));
}

pub fn run(pr: &mut PropRun, t: &Tier) {
    pr.funcs(&["interp::lagrange", "interp::hermite", "Polynomial::{mul,add,sub,purge_coefficient,purge_leading,evaluate,evaluate_derivative}"]);
    let nmax = if t.thorough { 8 } else { 6 };
    pr.bound(&format!("1..{} seeded concrete nodes in [-2,2] with separation >= 0.2 (seeded order and a permutation), values/derivatives symbolic in [-5,5], zeroing tolerance symbolic in [1e-14,1e-6]; fully symbolic nodes for n <= 3; complex nodes n = 3", nmax));
    pr.outside("conditioning beyond 8 nodes; rounding of symbolic operations");
    let mut jobs: Vec<super::Job> = vec![];
    for n in 1..=nmax {
        let seed = t.seed * 100 + n as i64;
        // arbitrary data: every "coefficient below tolerance" branch is explored (2^n paths): small n only
        if n <= (if t.thorough { 5 } else { 4 }) {
            let mut cfg = t.cfg(&format!("C15:lagrange-data(n={})", n));
            cfg.max_decisions = 300;
            cfg.max_paths = 600;
            crate::job!(jobs, cfg, lagrange_data, seed, n, false);
        }
        if n >= 2 {
            let mut cfg = t.cfg(&format!("C15:lagrange-unique(n={})", n));
            cfg.max_decisions = 300;
            cfg.max_paths = 600;
            crate::job!(jobs, cfg, lagrange_unique, seed, n);
        }
    }
    for n in 1..=(nmax / 2) {
        let seed = t.seed * 100 + 50 + n as i64;
        if n <= 2 {
            let mut cfg = t.cfg(&format!("C15:hermite-data(n={})", n));
            cfg.max_decisions = 300;
            cfg.max_paths = 600;
            crate::job!(jobs, cfg, hermite_data, seed, n);
        }
        if n >= 3 && !t.thorough {
            continue; // measured: minutes (long exact coefficients of the divided differences)
        }
        let mut cfg = t.cfg(&format!("C15:hermite-unique(n={})", n));
        cfg.max_decisions = 300;
        cfg.max_paths = 600;
        crate::job!(jobs, cfg, hermite_unique, seed, n);
    }
    for n in 2..=(if t.thorough { 3usize } else { 2usize }) {
        let mut cfg = t.cfg(&format!("C15:lagrange-data(n={},symbolic-nodes)", n));
        cfg.max_decisions = 300;
        cfg.max_paths = 300;
        crate::job!(jobs, cfg, lagrange_data, 0i64, n, true);
    }
    let cfg = t.cfg("C15:lagrange-complex(n=3)");
    crate::job!(jobs, cfg, lagrange_complex, t.seed, 3usize, false);
    let cfg = t.cfg("C15:lagrange-complex(n=3,imaginary-leading-coefficient)");
    crate::job!(jobs, cfg, lagrange_complex, t.seed, 3usize, true);
    super::run_jobs(pr, jobs, t.threads);
    run_h!(pr, t.cfg("C15:mismatched-lengths"), mismatched);
}
