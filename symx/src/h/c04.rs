//! C04 — IVP solutions converge; complex = real; dynamic = static (decided parts).
use super::ivp::*;
use super::Tier;
use crate::ev::PropRun;
use crate::run_h;
use crate::sym::Sc;
use bacon_sci::ivp::rk::RungeKutta23;
use bacon_sci::ivp::{Euler, IVPError, IVPSolver, UserError};
use bacon_sci::BVector;
use nalgebra::{Const, U1};
use num_complex::Complex;

const YB: f64 = 3.0;

/// a dynamically sized state vector gives the same path as a statically sized one (arbitrary right-hand side)
fn dyn_vs_static<S: Sc>(kind: Kind, items: usize) {
    let c = conf_inputs::<S>(2, YB);
    assume_valid(&c);
    S::assume(S::b_le(c.dt_max, c.dt_min * S::lit(1.2)));
    S::no_div_zero_forks();
    let log_s = new_log::<S>();
    let log_d = new_log::<S>();
    let rs = run_d2(kind, &c, tape_rhs(log_s.clone(), 3.0, None), items, &log_s, 0);
    let rd = run_dyn(kind, &c, tape_rhs(log_d.clone(), 3.0, None), items, &log_d, 0);
    S::reach("dyn-vs-static");
    S::prove("same-outcome-kind", S::b_const(rs.err.is_some() == rd.err.is_some() && rs.build_err.is_some() == rd.build_err.is_some()));
    S::prove("same-number-of-points", S::b_const(rs.items.len() == rd.items.len()));
    S::prove("same-number-of-derivative-evaluations", S::b_const(rs.calls_at_end == rd.calls_at_end));
    for (a, b) in rs.items.iter().zip(rd.items.iter()) {
        S::prove("same-times", S::b_close(a.t, b.t, S::lit(1e-12)));
        S::prove("dynamic-state-has-the-requested-dimension", S::b_const(b.y.len() == 2));
        for d in 0..2 {
            S::prove("same-states", S::b_close(a.y[d], b.y[d], S::lit(1e-12)));
        }
    }
}

type CRhs<S> = Box<dyn FnMut(S, &[Complex<S>], &mut ()) -> Result<BVector<Complex<S>, Const<1>>, UserError>>;

fn complex_run<'a, S: Sc, Slv>(c: &Conf<S>, z0: Complex<S>, lam: Complex<S>, items: usize) -> Vec<(S, Complex<S>)>
where
    Slv: IVPSolver<'a, Const<1>, Field = Complex<S>, RealField = S, UserData = (), Error = IVPError, Derivative = CRhs<S>>,
{
    let f: CRhs<S> = Box::new(move |_t: S, y: &[Complex<S>], _d: &mut ()| Ok(BVector::<Complex<S>, Const<1>>::from_element_generic(Const::<1>, U1, lam * y[0])));
    let built = (|| -> Result<_, IVPError> {
        Slv::new()?
            .with_tolerance(c.tol)?
            .with_minimum_dt(c.dt_min)?
            .with_maximum_dt(c.dt_max)?
            .with_initial_time(c.t0)?
            .with_ending_time(c.t1)?
            .with_initial_conditions_slice(&[z0])?
            .with_derivative(f)
            .solve(())
    })();
    let mut out = vec![];
    if let Ok(mut it) = built {
        while out.len() < items {
            match it.next() {
                Some(Ok((t, y))) => out.push((t, y[0])),
                _ => break,
            }
        }
    }
    out
}

/// y' = lambda*y with complex lambda, solved in C^1 and as the equivalent real 2x2 system: same points
fn complex_vs_real<S: Sc>(kind: Kind, items: usize) {
    let (lr, li) = (S::input("lr", -1.5, 1.5), S::input("li", -1.5, 1.5));
    let (xr, xi) = (S::input("xr", -YB, YB), S::input("xi", -YB, YB));
    let mut c = conf_inputs::<S>(2, YB);
    c.y0 = vec![xr, xi];
    assume_valid(&c);
    S::assume(S::b_le(c.dt_max, c.dt_min * S::lit(1.1)));
    S::assume(S::b_le(c.t0 + c.dt_max * S::lit(6.0), c.t1));
    S::no_div_zero_forks();
    let log = new_log::<S>();
    let real = run_d2(
        kind,
        &c,
        fn_rhs::<S, Const<2>, _>(log.clone(), move |_t: S, y: &[S]| vec![lr * y[0] - li * y[1], li * y[0] + lr * y[1]]),
        items,
        &log,
        0,
    );
    let cplx = match kind {
        Kind::Euler => complex_run::<S, Euler<Complex<S>, Const<1>, (), CRhs<S>>>(&c, Complex::new(xr, xi), Complex::new(lr, li), items),
        _ => complex_run::<S, RungeKutta23<Complex<S>, Const<1>, (), CRhs<S>>>(&c, Complex::new(xr, xi), Complex::new(lr, li), items),
    };
    S::reach("complex-vs-real");
    S::prove("same-number-of-points", S::b_const(real.items.len() == cplx.len()));
    for (a, (t, z)) in real.items.iter().zip(cplx.iter()) {
        S::prove("same-times", S::b_close(a.t, *t, S::lit(1e-10)));
        S::prove_m("real-part-equals-first-component", S::b_close(a.y[0], z.re, S::lit(1e-9)), S::b_gt((a.y[0] - z.re).sabs(), S::lit(1e-4)));
        S::prove_m("imaginary-part-equals-second-component", S::b_close(a.y[1], z.im, S::lit(1e-9)), S::b_gt((a.y[1] - z.im).sabs(), S::lit(1e-4)));
    }
}

/// Euler's classical first-order bound on y' = lambda*y over a few steps: |y_n - y(t_n)| <= K * dt
fn euler_first_order<S: Sc>(steps: usize) {
    let lambda = S::input("lambda", -1.0, 1.0);
    let y0 = S::input("y0", -YB, YB);
    let t0 = S::input("t0", -1.0, 1.0);
    let dt = S::input("dt", 1e-3, 0.1);
    let c = Conf { t0, t1: t0 + S::lit(10.0), dt_min: dt, dt_max: dt, tol: S::lit(1.0), y0: vec![y0] };
    let log = new_log::<S>();
    let run = run_d1(Kind::Euler, &c, fn_rhs::<S, Const<1>, _>(log.clone(), move |_t: S, y: &[S]| y.iter().map(|v| lambda * *v).collect()), steps + 1, &log, 0);
    S::reach("euler");
    for (n, item) in run.items.iter().enumerate() {
        // exact solution enclosed by its degree-6 Taylor polynomial: |z| = |lambda n dt| <= 0.5
        let z = lambda * (item.t - t0);
        let mut term = S::lit(1.0);
        let mut sum = S::lit(1.0);
        for k in 1..=6 {
            term = term * z * S::rat(1, k);
            sum = sum + term;
        }
        let rem = S::lit(0.5f64.powi(7) * 1.65 / 5040.0);
        let err = (item.y[0] - y0 * sum).sabs();
        // classical bound: |e_n| <= (e^{L T} - 1)/(2L) * max|y''| * dt  <=  K dt with K = |y0| * 2 * n
        S::prove("euler/global-error-first-order-in-dt", S::b_le(err, y0.sabs() * (S::lit(2.0 * (n as f64 + 1.0)) * dt + rem) + S::lit(1e-12)));
    }
}

pub fn run(pr: &mut PropRun, t: &Tier) {
    pr.funcs(&["ivp::Euler, ivp::rk::RungeKutta{23,45}, ivp::adams::Adams3, ivp::bdf::BDF2 at Dyn and Const<2>", "ivp::Euler and RungeKutta23 at N = Complex<Sym>"]);
    pr.bound("dynamic vs static dimension: identical configuration (all symbolic) and arbitrary right-hand side, first 2 points, Euler / RK23 / RK45 / Adams3; complex vs equivalent real 2x2 system on y' = lambda*y (complex lambda, start, configuration symbolic), first 2 points of Euler and first point of RK23; Euler's first-order global bound on y' = lambda*y for 4 steps");
    pr.outside("tolerance ladders over long intervals, dimension 3-4, the problem-dependent constants for non-linear problems, adaptive solvers' global error (a consequence of C02 for short prefixes only)");
    // (Runge-Kutta with a two-component arbitrary right-hand side: Euclidean norms under a fourth root, measured
    //  4-5 minutes per harness: thorough tier only)
    for kind in (if t.thorough { vec![Kind::Euler, Kind::RK23, Kind::RK45, Kind::Adams3] } else { vec![Kind::Euler, Kind::Adams3] }) {
        let mut cfg = t.cfg(&format!("C04:dyn-vs-static({})", kind.name()));
        cfg.max_decisions = 120;
        cfg.max_paths = 400;
        cfg.feas_timeout_s = 2.0;
        run_h!(pr, cfg, dyn_vs_static, kind, 2 + kind.startup());
    }
    let mut cfg = t.cfg("C04:complex-vs-real(Euler)");
    cfg.max_decisions = 100;
    run_h!(pr, cfg, complex_vs_real, Kind::Euler, 3);
    if t.thorough {
        let mut cfg = t.cfg("C04:complex-vs-real(RK23)");
        cfg.max_decisions = 60;
        cfg.max_paths = 200;
        cfg.feas_timeout_s = 10.0;
        cfg.query_timeout_s = 120.0;
        run_h!(pr, cfg, complex_vs_real, Kind::RK23, 1);
    }
    run_h!(pr, t.cfg("C04:euler-first-order(4 steps)"), euler_first_order, 4);
}
