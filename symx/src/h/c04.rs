//! C04 — IVP solutions converge; complex = real; dynamic = static (decided parts).
use super::ivp::*;
use super::Tier;
use crate::ev::PropRun;
use crate::run_h;
use crate::sym::Sc;
use bacon_sci::ivp::rk::RungeKutta23;
use bacon_sci::ivp::{Euler, IVPError, IVPSolver, UserError};
use bacon_sci::BVector;
use nalgebra::{Const, U1};
use num_complex::Complex;

const YB: f64 = 3.0;

/// a dynamically sized state vector gives the same path as a statically sized one (arbitrary right-hand side)
fn dyn_vs_static<S: Sc>(kind: Kind, items: usize) {
    let c = conf_inputs::<S>(2, YB);
    assume_valid(&c);
    S::assume(S::b_le(c.dt_max, c.dt_min * S::lit(1.2)));
    S::no_div_zero_forks();
    let log_s = new_log::<S>();
    let log_d = new_log::<S>();
    let rs = run_d2(kind, &c, tape_rhs(log_s.clone(), 3.0, None), items, &log_s, 0);
    let rd = run_dyn(kind, &c, tape_rhs(log_d.clone(), 3.0, None), items, &log_d, 0);
    S::reach("dyn-vs-static");
    S::prove("same-outcome-kind", S::b_const(rs.err.is_some() == rd.err.is_some() && rs.build_err.is_some() == rd.build_err.is_some()));
    S::prove("same-number-of-points", S::b_const(rs.items.len() == rd.items.len()));
    S::prove("same-number-of-derivative-evaluations", S::b_const(rs.calls_at_end == rd.calls_at_end));
    for (a, b) in rs.items.iter().zip(rd.items.iter()) {
        S::prove("same-times", S::b_close(a.t, b.t, S::lit(1e-12)));
        S::prove("dynamic-state-has-the-requested-dimension", S::b_const(b.y.len() == 2));
        for d in 0..2 {
            S::prove("same-states", S::b_close(a.y[d], b.y[d], S::lit(1e-12)));
        }
    }
}

type CRhs<S> = Box<dyn FnMut(S, &[Complex<S>], &mut ()) -> Result<BVector<Complex<S>, Const<1>>, UserError>>;

fn complex_run<'a, S: Sc, Slv>(c: &Conf<S>, z0: Complex<S>, lam: Complex<S>, items: usize) -> Vec<(S, Complex<S>)>
where
    Slv: IVPSolver<'a, Const<1>, Field = Complex<S>, RealField = S, UserData = (), Error = IVPError, Derivative = CRhs<S>>,
{
    let f: CRhs<S> = Box::new(move |_t: S, y: &[Complex<S>], _d: &mut ()| Ok(BVector::<Complex<S>, Const<1>>::from_element_generic(Const::<1>, U1, lam * y[0])));
    let built = (|| -> Result<_, IVPError> {
        Slv::new()?
            .with_tolerance(c.tol)?
            .with_minimum_dt(c.dt_min)?
            .with_maximum_dt(c.dt_max)?
            .with_initial_time(c.t0)?
            .with_ending_time(c.t1)?
            .with_initial_conditions_slice(&[z0])?
            .with_derivative(f)
            .solve(())
    })();
    let mut out = vec![];
    if let Ok(mut it) = built {
        while out.len() < items {
            match it.next() {
                Some(Ok((t, y))) => out.push((t, y[0])),
                _ => break,
            }
        }
    }
    out
}

/// y' = lambda*y with complex lambda, solved in C^1 and as the equivalent real 2x2 system: same points
fn complex_vs_real<S: Sc>(kind: Kind, items: usize) {
    let (lr, li) = (S::input("lr", -1.5, 1.5), S::input("li", -1.5, 1.5));
    let (xr, xi) = (S::input("xr", -YB, YB), S::input("xi", -YB, YB));
    let mut c = conf_inputs::<S>(2, YB);
    c.y0 = vec![xr, xi];
    assume_valid(&c);
    S::assume(S::b_le(c.dt_max, c.dt_min * S::lit(1.1)));
    S::assume(S::b_le(c.t0 + c.dt_max * S::lit(6.0), c.t1));
    S::no_div_zero_forks();
    let log = new_log::<S>();
    let real = run_d2(
        kind,
        &c,
        fn_rhs::<S, Const<2>, _>(log.clone(), move |_t: S, y: &[S]| vec![lr * y[0] - li * y[1], li * y[0] + lr * y[1]]),
        items,
        &log,
        0,
    );
    let cplx = match kind {
        Kind::Euler => complex_run::<S, Euler<Complex<S>, Const<1>, (), CRhs<S>>>(&c, Complex::new(xr, xi), Complex::new(lr, li), items),
        _ => complex_run::<S, RungeKutta23<Complex<S>, Const<1>, (), CRhs<S>>>(&c, Complex::new(xr, xi), Complex::new(lr, li), items),
    };
    S::reach("complex-vs-real");
    S::prove("same-number-of-points", S::b_const(real.items.len() == cplx.len()));
    for (a, (t, z)) in real.items.iter().zip(cplx.iter()) {
        S::prove("same-times", S::b_close(a.t, *t, S::lit(1e-10)));
        S::prove_m("real-part-equals-first-component", S::b_close(a.y[0], z.re, S::lit(1e-9)), S::b_gt((a.y[0] - z.re).sabs(), S::lit(1e-4)));
        S::prove_m("imaginary-part-equals-second-component", S::b_close(a.y[1], z.im, S::lit(1e-9)), S::b_gt((a.y[1] - z.im).sabs(), S::lit(1e-4)));
    }
}


type CRhs2<S> = Box<dyn FnMut(S, &[Complex<S>], &mut ()) -> Result<BVector<Complex<S>, Const<2>>, UserError>>;

fn complex_run2<'a, S: Sc, Slv>(c: &Conf<S>, z0: [Complex<S>; 2], lam: Complex<S>, items: usize) -> Vec<(S, [Complex<S>; 2])>
where
    Slv: IVPSolver<'a, Const<2>, Field = Complex<S>, RealField = S, UserData = (), Error = IVPError, Derivative = CRhs2<S>>,
{
    let f: CRhs2<S> = Box::new(move |_t: S, y: &[Complex<S>], _d: &mut ()| Ok(BVector::<Complex<S>, Const<2>>::from_iterator_generic(Const::<2>, U1, [lam * y[0], lam * y[1]].into_iter())));
    let built = (|| -> Result<_, IVPError> {
        Slv::new()?
            .with_tolerance(c.tol)?
            .with_minimum_dt(c.dt_min)?
            .with_maximum_dt(c.dt_max)?
            .with_initial_time(c.t0)?
            .with_ending_time(c.t1)?
            .with_initial_conditions_slice(&z0)?
            .with_derivative(f)
            .solve(())
    })();
    let mut out = vec![];
    if let Ok(mut it) = built {
        while out.len() < items {
            match it.next() {
                Some(Ok((t, y))) => out.push((t, [y[0], y[1]])),
                _ => break,
            }
        }
    }
    out
}

/// complex dimension 2 vs the equivalent real 4x4 system (the error NORM couples the components: a norm that is not
/// the Euclidean norm of the underlying real vector changes which steps are accepted).  y' = lambda*y componentwise,
/// concrete complex lambda and step bounds, start (alpha u1, beta u2) with concrete complex directions u1, u2 a
/// quarter turn apart and symbolic real amplitudes, tolerance symbolic.
fn complex2_vs_real4<S: Sc>(kind: Kind, items: usize) {
    let (lr, li) = (S::lit(0.25), S::lit(1.0));
    let alpha = S::input("alpha", -3.0, 3.0);
    let beta = S::input("beta", -3.0, 3.0);
    let tol = S::input("tol", 1e-8, 1e-2);
    let t0 = S::input("t0", -1.0, 1.0);
    S::no_div_zero_forks();
    // u1 = 1, u2 = i
    let zero = S::lit(0.0);
    let c = Conf { t0, t1: t0 + S::lit(10.0), dt_min: S::lit(0.0703125), dt_max: S::lit(0.125), tol, y0: vec![alpha, zero, zero, beta] };
    let log = new_log::<S>();
    let real = run_d4(
        kind,
        &c,
        fn_rhs::<S, Const<4>, _>(log.clone(), move |_t: S, y: &[S]| vec![lr * y[0] - li * y[1], li * y[0] + lr * y[1], lr * y[2] - li * y[3], li * y[2] + lr * y[3]]),
        items,
        &log,
        0,
    );
    let z0 = [Complex::new(alpha, zero), Complex::new(zero, beta)];
    let cplx = match kind {
        Kind::RK45 => complex_run2::<S, bacon_sci::ivp::rk::RungeKutta45<Complex<S>, Const<2>, (), CRhs2<S>>>(&c, z0, Complex::new(lr, li), items),
        _ => complex_run2::<S, RungeKutta23<Complex<S>, Const<2>, (), CRhs2<S>>>(&c, z0, Complex::new(lr, li), items),
    };
    S::reach("complex2-vs-real4");
    S::prove("same-number-of-points", S::b_const(real.items.len() == cplx.len()));
    for (a, (t, z)) in real.items.iter().zip(cplx.iter()) {
        S::prove_m("same-times", S::b_close(a.t, *t, S::lit(1e-10)), S::b_gt((a.t - *t).sabs(), S::lit(1e-4)));
        for k in 0..2 {
            S::prove_m("real-part-equals-real-component", S::b_close(a.y[2 * k], z[k].re, S::lit(1e-9)), S::b_gt((a.y[2 * k] - z[k].re).sabs(), S::lit(1e-4)));
            S::prove_m("imaginary-part-equals-imaginary-component", S::b_close(a.y[2 * k + 1], z[k].im, S::lit(1e-9)), S::b_gt((a.y[2 * k + 1] - z[k].im).sabs(), S::lit(1e-4)));
        }
    }
}


/// complex dimension 2: the accept / reject decisions of the Runge-Kutta controllers agree with the EUCLIDEAN norm
/// of the embedded estimate (sum of squared moduli), i.e. with the norm of the equivalent real 4-vector.  The stage
/// derivatives are seeded concrete complex directions times two symbolic real amplitudes; tolerance symbolic.
/// (A single complex run compared with a harness-side reference norm: comparing two runs decision by decision is
///  ill-posed, their estimates differ in the last bit and a tolerance in between separates them.)
fn complex2_norm<S: Sc>(kind: Kind) {
    use super::c03::{bogacki_shampine23, fehlberg45};
    use std::cell::RefCell;
    use std::rc::Rc;
    let tb = if kind == Kind::RK45 { fehlberg45() } else { bogacki_shampine23() };
    let o = tb.c.len();
    let alpha = S::input("alpha", -4.0, 4.0);
    let beta = S::input("beta", -4.0, 4.0);
    let tol = S::input("tol", 1e-8, 1.0);
    S::no_div_zero_forks();
    let c = Conf { t0: S::lit(0.25), t1: S::lit(8.0), dt_min: S::lit(0.0703125), dt_max: S::lit(0.125), tol, y0: vec![] };
    let log: Rc<RefCell<Vec<[Complex<S>; 2]>>> = Rc::new(RefCell::new(vec![]));
    let l2 = log.clone();
    let f: CRhs2<S> = Box::new(move |_t: S, _y: &[Complex<S>], _d: &mut ()| {
        let k = l2.borrow().len() as i64;
        let mut g = super::util::Lcg::new(613 * k + 17);
        let v = [
            Complex::new(alpha * S::lit(g.range_r(-1.0, 1.0, 2)), alpha * S::lit(g.range_r(-1.0, 1.0, 2))),
            Complex::new(beta * S::lit(g.range_r(-1.0, 1.0, 2)), beta * S::lit(g.range_r(-1.0, 1.0, 2))),
        ];
        l2.borrow_mut().push(v);
        Ok(BVector::<Complex<S>, Const<2>>::from_iterator_generic(Const::<2>, U1, v.into_iter()))
    });
    let z0 = [Complex::new(S::lit(0.5), S::lit(0.25)), Complex::new(S::lit(-0.5), S::lit(1.0))];
    fn go<'a, S: Sc, Slv>(c: &Conf<S>, z0: &[Complex<S>; 2], f: CRhs2<S>) -> bool
    where
        Slv: IVPSolver<'a, Const<2>, Field = Complex<S>, RealField = S, UserData = (), Error = IVPError, Derivative = CRhs2<S>>,
    {
        let built = (|| -> Result<_, IVPError> {
            Slv::new()?
                .with_tolerance(c.tol)?
                .with_minimum_dt(c.dt_min)?
                .with_maximum_dt(c.dt_max)?
                .with_initial_time(c.t0)?
                .with_ending_time(c.t1)?
                .with_initial_conditions_slice(z0)?
                .with_derivative(f)
                .solve(())
        })();
        match built {
            Ok(mut it) => matches!(it.next(), Some(Ok(_))),
            Err(_) => false,
        }
    }
    let yielded = match kind {
        Kind::RK45 => go::<S, bacon_sci::ivp::rk::RungeKutta45<Complex<S>, Const<2>, (), CRhs2<S>>>(&c, &z0, f),
        _ => go::<S, RungeKutta23<Complex<S>, Const<2>, (), CRhs2<S>>>(&c, &z0, f),
    };
    let calls = log.borrow();
    S::reach("complex2-norm");
    S::prove("stage-count-multiple-of-order", S::b_const(calls.len() % o == 0 && calls.len() > 0));
    if calls.len() % o != 0 || calls.is_empty() {
        return;
    }
    let attempts = calls.len() / o;
    for a in 0..attempts {
        let ch = &calls[a * o..(a + 1) * o];
        let mut est_sq = S::lit(0.0);
        for d in 0..2 {
            let (mut re, mut im) = (S::lit(0.0), S::lit(0.0));
            for i in 0..o {
                let w = S::rat(tb.e[i].0, tb.e[i].1);
                re = re + w * ch[i][d].re;
                im = im + w * ch[i][d].im;
            }
            est_sq = est_sq + re * re + im * im;
        }
        let accepted = yielded && a + 1 == attempts;
        if accepted {
            let lim = tol * S::lit(1.0 + 1e-6);
            S::prove_m("accepted-step-has-euclidean-estimate-within-tolerance", S::b_le(est_sq, lim * lim), S::b_gt(est_sq, lim * lim * S::lit(1.21)));
        } else {
            let lim = tol * S::lit(1.0 - 1e-6);
            S::prove_m("rejected-step-has-euclidean-estimate-above-tolerance", S::b_le(lim * lim, est_sq), S::b_lt(est_sq, lim * lim * S::lit(0.81)));
        }
    }
}

/// Euler's classical first-order bound on y' = lambda*y over a few steps: |y_n - y(t_n)| <= K * dt
fn euler_first_order<S: Sc>(steps: usize) {
    let lambda = S::input("lambda", -1.0, 1.0);
    let y0 = S::input("y0", -YB, YB);
    let t0 = S::input("t0", -1.0, 1.0);
    let dt = S::input("dt", 1e-3, 0.1);
    let c = Conf { t0, t1: t0 + S::lit(10.0), dt_min: dt, dt_max: dt, tol: S::lit(1.0), y0: vec![y0] };
    let log = new_log::<S>();
    let run = run_d1(Kind::Euler, &c, fn_rhs::<S, Const<1>, _>(log.clone(), move |_t: S, y: &[S]| y.iter().map(|v| lambda * *v).collect()), steps + 1, &log, 0);
    S::reach("euler");
    for (n, item) in run.items.iter().enumerate() {
        // exact solution enclosed by its degree-6 Taylor polynomial: |z| = |lambda n dt| <= 0.5
        let z = lambda * (item.t - t0);
        let mut term = S::lit(1.0);
        let mut sum = S::lit(1.0);
        for k in 1..=6 {
            term = term * z * S::rat(1, k);
            sum = sum + term;
        }
        let rem = S::lit(0.5f64.powi(7) * 1.65 / 5040.0);
        let err = (item.y[0] - y0 * sum).sabs();
        // classical bound: |e_n| <= (e^{L T} - 1)/(2L) * max|y''| * dt  <=  K dt with K = |y0| * 2 * n
        S::prove("euler/global-error-first-order-in-dt", S::b_le(err, y0.sabs() * (S::lit(2.0 * (n as f64 + 1.0)) * dt + rem) + S::lit(1e-12)));
    }
}

pub fn run(pr: &mut PropRun, t: &Tier) {
    pr.funcs(&["ivp::Euler, ivp::rk::RungeKutta{23,45}, ivp::adams::Adams3, ivp::bdf::BDF2 at Dyn and Const<2>", "ivp::Euler and RungeKutta23 at N = Complex<Sym>"]);
    pr.bound("dynamic vs static dimension: identical configuration (all symbolic) and arbitrary right-hand side, first 2 points, Euler / RK23 / RK45 / Adams3; complex vs equivalent real 2x2 system on y' = lambda*y (complex lambda, start, configuration symbolic), first 2 points of Euler and first point of RK23; Euler's first-order global bound on y' = lambda*y for 4 steps");
    pr.outside("tolerance ladders over long intervals, dimension 3-4, the problem-dependent constants for non-linear problems, adaptive solvers' global error (a consequence of C02 for short prefixes only)");
    // (Runge-Kutta with a two-component arbitrary right-hand side: Euclidean norms under a fourth root, measured
    //  4-5 minutes per harness: thorough tier only)
    for kind in (if t.thorough { vec![Kind::Euler, Kind::RK23, Kind::RK45, Kind::Adams3] } else { vec![Kind::Euler, Kind::Adams3] }) {
        let mut cfg = t.cfg(&format!("C04:dyn-vs-static({})", kind.name()));
        cfg.max_decisions = 120;
        cfg.max_paths = 400;
        cfg.feas_timeout_s = 2.0;
        run_h!(pr, cfg, dyn_vs_static, kind, 2 + kind.startup());
    }
    let mut cfg = t.cfg("C04:complex-vs-real(Euler)");
    cfg.max_decisions = 100;
    run_h!(pr, cfg, complex_vs_real, Kind::Euler, 3);
    if t.thorough {
        let mut cfg = t.cfg("C04:complex-vs-real(RK23)");
        cfg.max_decisions = 60;
        cfg.max_paths = 200;
        cfg.feas_timeout_s = 10.0;
        cfg.query_timeout_s = 120.0;
        run_h!(pr, cfg, complex_vs_real, Kind::RK23, 1);
    }
    for kind in [Kind::RK23, Kind::RK45] {
        let mut cfg = t.cfg(&format!("C04:complex2-norm({})", kind.name()));
        cfg.max_decisions = 80;
        cfg.max_paths = 300;
        cfg.query_timeout_s = if t.thorough { 120.0 } else { 30.0 };
        run_h!(pr, cfg, complex2_norm, kind);
    }
    if t.thorough {
        // (decision-by-decision comparison of two runs: razor-thin tolerance windows separate estimates that differ
        //  in the last bit; kept for the thorough tier where its unconfirmed candidates are reported as such)
        let mut cfg = t.cfg("C04:complex2-vs-real4(RK23)");
        cfg.max_decisions = 80;
        cfg.max_paths = 300;
        cfg.query_timeout_s = 120.0;
        run_h!(pr, cfg, complex2_vs_real4, Kind::RK23, 2);
    }
    run_h!(pr, t.cfg("C04:euler-first-order(4 steps)"), euler_first_order, 4);
    // global accuracy of the multistep solvers on y' = lambda*y through an accepted and through a REJECTED start-up
    // (harness shared with C02; the rejected attempt's retry factor is symbolic)
    use super::c02::{accepted_startup_window, multistep_linear, rejected_startup_window};
    for kind in [Kind::Adams3, Kind::Adams5] {
        for lambda in [-1.25, 0.75] {
            for (name, w, y0c) in [("rejected-start-up", rejected_startup_window(kind, lambda, 0.001, 0.2), Some(-1.5)), ("accepted-start-up", accepted_startup_window(kind, lambda, 0.001, 0.2), None)] {
                let mut cfg = t.cfg(&format!("C04:global-accuracy({},lambda={},{})", kind.name(), lambda, name));
                cfg.max_decisions = 200;
                run_h!(pr, cfg, multistep_linear, kind, lambda, 0.001, 0.2, w, kind.startup() + 3, true, y0c);
            }
        }
    }
}
