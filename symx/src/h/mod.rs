//! Harnesses, one module per property.  Every scenario is written once,
//! generic over `S: Sc`, and instantiated at `Sym` (symbolic run) and `f64`
//! (native replay of solver models against the real library).

use crate::eng::{explore, Cfg};
use crate::ev::PropRun;

pub mod util;
pub mod c19;
pub mod ivp;
pub mod c03;
pub mod c01;
pub mod c13;
pub mod c11;
pub mod c12;
pub mod c15;
pub mod c16;
pub mod c10;
pub mod c18;
pub mod c07;
pub mod c06;
pub mod c09;
pub mod c08;
pub mod c17;
pub mod c05;
pub mod c02;
pub mod c04;

pub struct Tier {
    pub thorough: bool,
    pub seed: i64,
    pub threads: usize,
}

impl Tier {
    pub fn cfg(&self, name: &str) -> Cfg {
        let mut c = Cfg::new(name);
        c.threads = self.threads;
        if self.thorough {
            c.query_timeout_s = 120.0;
            c.feas_timeout_s = 20.0;
            c.max_paths = 20000;
            c.max_decisions = 1500;
            c.wall_budget_s = 900.0;
            c.validate_paths = 8;
        } else {
            c.query_timeout_s = 10.0;
            c.feas_timeout_s = 4.0;
            c.max_paths = 3000;
            c.max_decisions = 600;
            c.wall_budget_s = 240.0;
            c.validate_paths = 3;
        }
        c
    }
}

#[macro_export]
macro_rules! run_h {
    ($pr:expr, $cfg:expr, $f:ident $(, $arg:expr)*) => {{
        let cfg = $cfg;
        if let Some(rt) = $pr.replay.clone() {
            if rt.0 == cfg.name {
                let out = $crate::eng::run_native(&rt.1, &rt.2, &|| $f::<f64>($($arg),*));
                $pr.replay_out = Some(out);
            }
        } else if $pr.over_budget() {
            $pr.skipped.push(cfg.name.clone());
        } else if $pr.only.as_ref().map_or(true, |o| cfg.name.contains(o.as_str())) {
            let rep = $crate::eng::explore(&cfg, &|| $f::<$crate::sym::Sym>($($arg),*), &|| $f::<f64>($($arg),*));
            $pr.add(rep);
        }
    }};
}

pub type Job<'a> = (crate::eng::Cfg, Box<dyn Fn(bool) + Sync + Send + 'a>);

/// queue a harness for `run_jobs` (many small harnesses run side by side, one solver thread each);
/// the closure runs the scenario natively (true) or symbolically (false)
#[macro_export]
macro_rules! job {
    ($jobs:expr, $cfg:expr, $f:ident $(, $arg:expr)*) => {{
        let cfg = $cfg;
        $jobs.push((cfg, Box::new(move |native: bool| if native { $f::<f64>($($arg.clone()),*) } else { $f::<$crate::sym::Sym>($($arg.clone()),*) }) as Box<dyn Fn(bool) + Sync + Send>));
    }};
}

pub fn run_jobs(pr: &mut PropRun, jobs: Vec<Job>, threads: usize) {
    use std::sync::atomic::{AtomicUsize, Ordering};
    use std::sync::Mutex;
    if let Some(rt) = pr.replay.clone() {
        for (cfg, f) in jobs.iter() {
            if cfg.name == rt.0 {
                pr.replay_out = Some(crate::eng::run_native(&rt.1, &rt.2, &|| f(true)));
            }
        }
        return;
    }
    let only = pr.only.clone();
    let jobs: Vec<Job> = jobs.into_iter().filter(|j| only.as_ref().map_or(true, |o| j.0.name.contains(o.as_str()))).collect();
    let next = AtomicUsize::new(0);
    let out: Mutex<Vec<(usize, crate::eng::Report)>> = Mutex::new(vec![]);
    let skipped: Mutex<Vec<String>> = Mutex::new(vec![]);
    let (t0, budget) = (pr.t0, pr.budget_s);
    std::thread::scope(|sc| {
        for _ in 0..threads.max(1) {
            sc.spawn(|| loop {
                let i = next.fetch_add(1, Ordering::SeqCst);
                if i >= jobs.len() {
                    break;
                }
                let (cfg, f) = &jobs[i];
                if t0.elapsed().as_secs_f64() > budget {
                    skipped.lock().unwrap().push(cfg.name.clone());
                    continue;
                }
                let mut c = cfg.clone();
                c.threads = 1;
                let rep = crate::eng::explore(&c, &|| f(false), &|| f(true));
                out.lock().unwrap().push((i, rep));
            });
        }
    });
    pr.skipped.extend(skipped.into_inner().unwrap());
    let mut v = out.into_inner().unwrap();
    v.sort_by_key(|x| x.0);
    let quiet = v.len() > 24;
    for (_, r) in v {
        pr.add_q(r, quiet);
    }
}

pub fn run_property(id: &str, t: &Tier, replay: Option<(String, std::collections::HashMap<String, f64>, Vec<crate::eng::TapeSample>)>, only: Option<String>) -> Option<PropRun> {
    let tier = if t.thorough { "thorough" } else { "quick" };
    let mut pr = PropRun::new(id, tier, t.seed);
    pr.replay = replay;
    pr.only = only;
    pr.assume("symbolic operations are exact real arithmetic (no rounding/overflow/NaN of symbolic values); constants are IEEE doubles folded natively and enter formulas as exact rationals");
    pr.assume("solver: z3 4.8.12 is trusted for unsat verdicts; every sat verdict must reproduce on the native f64 build before it is reported");
    match id {
        "C19" => c19::run(&mut pr, t),
        "C03" => c03::run(&mut pr, t),
        "C01" => c01::run(&mut pr, t),
        "C13" => c13::run(&mut pr, t),
        "C11" => c11::run(&mut pr, t),
        "C12" => c12::run(&mut pr, t),
        "C15" => c15::run(&mut pr, t),
        "C16" => c16::run(&mut pr, t),
        "C10" => c10::run(&mut pr, t),
        "C18" => c18::run(&mut pr, t),
        "C07" => c07::run(&mut pr, t),
        "C06" => c06::run(&mut pr, t),
        "C09" => c09::run(&mut pr, t),
        "C08" => c08::run(&mut pr, t),
        "C17" => c17::run(&mut pr, t),
        "C05" => c05::run(&mut pr, t),
        "C02" => c02::run(&mut pr, t),
        "C04" => c04::run(&mut pr, t),
        _ => return None,
    }
    let _ = explore;
    Some(pr)
}

