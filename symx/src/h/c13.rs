//! C13 — polynomial evaluation, calculus and coefficient access are mutually consistent.
use super::util::*;
use super::Tier;
use crate::ev::PropRun;
use crate::run_h;
use crate::sym::Sc;
use bacon_sci::polynomial::Polynomial;
use num_complex::Complex;

const CB: f64 = 10.0;

fn pow_sum<S: Sc>(c: &[S], x: S) -> S {
    // independent of Horner: sum of c_k * x^k with explicit powers
    let mut acc = S::lit(0.0);
    let mut xp = S::lit(1.0);
    for ck in c {
        acc = acc + *ck * xp;
        xp = xp * x;
    }
    acc
}

fn poly_of<S: Sc>(c: &[S]) -> Polynomial<S> {
    let rev: Vec<S> = c.iter().rev().cloned().collect();
    Polynomial::from_slice(&rev)
}

/// evaluation, derivative, antiderivative, integral identities for a symbolic polynomial of degree `deg`
fn calculus<S: Sc>(deg: usize) {
    let c = inputs::<S>("c", deg + 1, -CB, CB);
    let x = S::input("x", -2.0, 2.0);
    let p = poly_of(&c);
    let tol = S::lit(1e-6);
    S::reach("calculus");
    // round trip and coefficient access
    S::prove("order-is-length-minus-one", S::b_const(p.order() == deg));
    let back = p.get_coefficients();
    S::prove("get_coefficients-round-trips-from_slice", S::b_const(back.len() == deg + 1));
    for k in 0..=deg {
        S::prove("get_coefficient-reads-power-k", S::b_eq(p.get_coefficient(k), c[k]));
        if back.len() == deg + 1 {
            S::prove("get_coefficients-highest-power-first", S::b_eq(back[deg - k], c[k]));
        }
    }
    S::prove("get_coefficient-beyond-degree-is-zero", S::b_eq(p.get_coefficient(deg + 3), S::lit(0.0)));
    // evaluation
    let val = pow_sum(&c, x);
    S::prove_m("evaluate-equals-coefficient-expansion", S::b_close(p.evaluate(x), val, tol), S::b_gt((p.evaluate(x) - val).sabs(), S::lit(1e-3)));
    // derivative
    let dc: Vec<S> = (1..=deg).map(|k| c[k] * S::lit(k as f64)).collect();
    let dval = pow_sum(&dc, x);
    let (e0, e1) = p.evaluate_derivative(x);
    S::prove("evaluate_derivative-value", S::b_close(e0, val, tol));
    S::prove_m("evaluate_derivative-derivative", S::b_close(e1, dval, tol), S::b_gt((e1 - dval).sabs(), S::lit(1e-3)));
    let dp = p.derivative();
    S::prove("derivative-polynomial-degree", S::b_const(dp.order() == deg.max(1) - 1));
    for k in 0..deg.max(1) {
        let want = if k < dc.len() { dc[k] } else { S::lit(0.0) };
        S::prove("derivative-polynomial-termwise", S::b_close(dp.get_coefficient(k), want, S::lit(1e-9)));
    }
    S::prove("derivative-polynomial-evaluates-to-derivative", S::b_close(dp.evaluate(x), dval, tol));
    // antiderivative
    let k0 = S::input("k0", -CB, CB);
    let ap = p.antiderivative(k0);
    S::prove("antiderivative-degree", S::b_const(ap.order() == deg + 1));
    S::prove("antiderivative-constant", S::b_eq(ap.get_coefficient(0), k0));
    for k in 0..=deg {
        S::prove("antiderivative-termwise", S::b_close(ap.get_coefficient(k + 1) * S::lit((k + 1) as f64), c[k], S::lit(1e-9)));
    }
    let dap = ap.derivative();
    for k in 0..=deg {
        S::prove("derivative-of-antiderivative-is-identity", S::b_close(dap.get_coefficient(k), c[k], S::lit(1e-9)));
    }
    // definite integral
    let a = S::input("a", -2.0, 2.0);
    let b = S::input("b", -2.0, 2.0);
    let anti = |t: S| {
        let ac: Vec<S> = std::iter::once(S::lit(0.0)).chain((0..=deg).map(|k| c[k] * S::rat(1, (k + 1) as i64))).collect();
        pow_sum(&ac, t)
    };
    let iab = p.integrate(a, b);
    S::prove_m("integrate-equals-antiderivative-difference", S::b_close(iab, anti(b) - anti(a), tol), S::b_gt((iab - (anti(b) - anti(a))).sabs(), S::lit(1e-3)));
    S::prove("integrate-additive-over-adjacent-intervals", S::b_close(p.integrate(a, x) + p.integrate(x, b), iab, tol));
    S::control("calculus");
}

fn calculus_complex<S: Sc>(deg: usize) {
    let cr = inputs::<S>("cr", deg + 1, -CB, CB);
    let ci = inputs::<S>("ci", deg + 1, -CB, CB);
    let xr = S::input("xr", -1.4, 1.4);
    let xi = S::input("xi", -1.4, 1.4);
    let c: Vec<Complex<S>> = (0..=deg).map(|k| Complex::new(cr[k], ci[k])).collect();
    let rev: Vec<Complex<S>> = c.iter().rev().cloned().collect();
    let p = Polynomial::from_slice(&rev);
    let x = Complex::new(xr, xi);
    // reference: complex powers by explicit real arithmetic
    let (mut pr, mut pi) = (S::lit(1.0), S::lit(0.0));
    let (mut vr, mut vi) = (S::lit(0.0), S::lit(0.0));
    let (mut dr, mut di) = (S::lit(0.0), S::lit(0.0));
    for k in 0..=deg {
        vr = vr + cr[k] * pr - ci[k] * pi;
        vi = vi + cr[k] * pi + ci[k] * pr;
        if k + 1 <= deg {
            let f = S::lit((k + 1) as f64);
            dr = dr + f * (cr[k + 1] * pr - ci[k + 1] * pi);
            di = di + f * (cr[k + 1] * pi + ci[k + 1] * pr);
        }
        let npr = pr * xr - pi * xi;
        pi = pr * xi + pi * xr;
        pr = npr;
    }
    let tol = S::lit(1e-6);
    let v = p.evaluate(x);
    S::reach("complex");
    S::prove("complex-evaluate-re", S::b_close(v.re, vr, tol));
    S::prove("complex-evaluate-im", S::b_close(v.im, vi, tol));
    let (e0, e1) = p.evaluate_derivative(x);
    S::prove("complex-evaluate_derivative-value", S::b_and(S::b_close(e0.re, vr, tol), S::b_close(e0.im, vi, tol)));
    S::prove("complex-evaluate_derivative-re", S::b_close(e1.re, dr, tol));
    S::prove("complex-evaluate_derivative-im", S::b_close(e1.im, di, tol));
    let dp = p.derivative();
    for k in 0..deg {
        S::prove("complex-derivative-termwise", S::b_and(S::b_close(dp.get_coefficient(k).re, cr[k + 1] * S::lit((k + 1) as f64), S::lit(1e-9)), S::b_close(dp.get_coefficient(k).im, ci[k + 1] * S::lit((k + 1) as f64), S::lit(1e-9))));
    }
}

#[derive(Clone, Copy, Debug)]
enum Op {
    Set(u32),
    Purge(usize),
    PurgeLeading,
}

/// a sequence of editing operations with symbolic values, compared with a reference coefficient map
fn edit<S: Sc>(len0: usize, ops: Vec<Op>) {
    const W: usize = 9;
    let c = inputs::<S>("c", len0, -CB, CB);
    let mut p = poly_of(&c);
    let tolv = S::input("ztol", 1e-14, 1e-6);
    let _ = p.set_tolerance(tolv);
    let mut reference: Vec<S> = (0..W).map(|k| if k < len0 { c[k] } else { S::lit(0.0) }).collect();
    S::reach("edit");
    for (i, op) in ops.iter().enumerate() {
        match *op {
            Op::Set(power) => {
                let v = S::input(&format!("v{}", i), -CB, CB);
                p.set_coefficient(power, v);
                reference[power as usize] = v;
                S::prove("set_coefficient-extends-order", S::b_const(p.order() >= power as usize));
            }
            Op::Purge(power) => {
                p.purge_coefficient(power);
                if power < W {
                    reference[power] = S::lit(0.0);
                }
            }
            Op::PurgeLeading => {
                let before = p.order();
                p.purge_leading();
                let after = p.order();
                S::prove("purge_leading-never-raises-order", S::b_const(after <= before));
                // removed powers held negligible coefficients; the new leading one (if any) does not
                for k in (after + 1)..=before {
                    S::prove("purge_leading-removes-only-negligible", S::b_le(reference[k].sabs(), tolv));
                    reference[k] = S::lit(0.0);
                }
                if after > 0 {
                    S::prove("purge_leading-stops-at-non-negligible", S::b_gt(reference[after].sabs(), tolv));
                }
            }
        }
        for k in 0..W {
            S::prove(&format!("edit/{}-changes-exactly-that-power", match op { Op::Set(_) => "set", Op::Purge(_) => "purge", Op::PurgeLeading => "purge_leading" }), S::b_eq(p.get_coefficient(k), reference[k]));
        }
        S::prove("edit/order-below-width", S::b_const(p.order() < W));
    }
}

/// complex coefficients: purge_leading removes a leading coefficient only when BOTH its parts are negligible
fn purge_leading_complex<S: Sc>(len: usize) {
    let cr = inputs::<S>("cr", len, -CB, CB);
    let ci = inputs::<S>("ci", len, -CB, CB);
    let c: Vec<Complex<S>> = (0..len).map(|k| Complex::new(cr[k], ci[k])).collect();
    let rev: Vec<Complex<S>> = c.iter().rev().cloned().collect();
    let mut p = Polynomial::from_slice(&rev);
    let tolv = S::input("ztol", 1e-14, 1e-6);
    let _ = p.set_tolerance(tolv);
    p.purge_leading();
    let after = p.order();
    S::reach("purge-leading-complex");
    S::prove("complex/purge_leading-never-raises-order", S::b_const(after <= len - 1));
    for k in (after + 1)..len {
        S::prove("complex/purge_leading-removes-only-negligible-real-and-imaginary-parts", S::b_and(S::b_le(cr[k].sabs(), tolv), S::b_le(ci[k].sabs(), tolv)));
    }
    if after > 0 {
        S::prove("complex/purge_leading-stops-at-non-negligible", S::b_or(S::b_gt(cr[after].sabs(), tolv), S::b_gt(ci[after].sabs(), tolv)));
    }
    for k in 0..=after {
        let g = p.get_coefficient(k);
        S::prove("complex/purge_leading-keeps-the-other-coefficients", S::b_and(S::b_eq(g.re, cr[k]), S::b_eq(g.im, ci[k])));
    }
}

fn op_sequences(max_len: usize, powers: &[usize]) -> Vec<Vec<Op>> {
    let mut alphabet: Vec<Op> = vec![Op::PurgeLeading];
    for &p in powers {
        alphabet.push(Op::Set(p as u32));
        alphabet.push(Op::Purge(p));
    }
    let mut out: Vec<Vec<Op>> = vec![vec![]];
    let mut all = vec![];
    for _ in 0..max_len {
        let mut next = vec![];
        for s in &out {
            for a in &alphabet {
                let mut t = s.clone();
                t.push(*a);
                next.push(t);
            }
        }
        all.extend(next.iter().cloned());
        out = next;
    }
    all
}

pub fn run(pr: &mut PropRun, t: &Tier) {
    pr.funcs(&[
        "Polynomial::{from_slice,get_coefficients,get_coefficient,order,evaluate,evaluate_derivative,derivative,antiderivative,integrate}",
        "Polynomial::{set_coefficient,purge_coefficient,purge_leading,set_tolerance}",
    ]);
    let maxdeg = if t.thorough { 10 } else { 6 };
    pr.bound(&format!("calculus identities: all coefficients symbolic in [-10,10], x,a,b symbolic in [-2,2], degree 0..{} (real), 1..3 (complex, |x|<=2)", maxdeg));
    pr.outside("Horner rounding bound (real arithmetic on symbolic values); degrees above the bound");
    for deg in 0..=maxdeg {
        run_h!(pr, t.cfg(&format!("C13:calculus(deg={})", deg)), calculus, deg);
    }
    for deg in 1..=3usize {
        run_h!(pr, t.cfg(&format!("C13:calculus-complex(deg={})", deg)), calculus_complex, deg);
    }
    for len in [1usize, 2, 4] {
        run_h!(pr, t.cfg(&format!("C13:purge_leading-complex(len={})", len)), purge_leading_complex, len);
    }
    // editing: exhaustive sequences over a small alphabet, symbolic values
    let (len, powers): (usize, Vec<usize>) = if t.thorough { (3, vec![0, 1, 2, 3, 4, 6]) } else { (2, vec![0, 2, 3, 4, 6]) };
    pr.bound(&format!("editing: every sequence of 1..{} operations over set/purge of powers {:?} and purge_leading, starting from polynomials of length 1 and 4 with symbolic coefficients and symbolic zero tolerance in [1e-14,1e-6] (exhaustive small scope)", len, powers));
    let seqs = op_sequences(len, &powers);
    let mut jobs: Vec<super::Job> = vec![];
    for len0 in [1usize, 4] {
        for s in &seqs {
            let name = format!("C13:edit(len0={},ops={:?})", len0, s);
            let mut cfg = t.cfg(&name);
            cfg.validate_paths = 1;
            crate::job!(jobs, cfg, edit, len0, s);
        }
    }
    pr.bound(&format!("{} editing sequences enumerated", jobs.len()));
    super::run_jobs(pr, jobs, t.threads);
}
