//! C19 — finite-difference derivatives are exact on low-degree polynomials.
use super::util::*;
use super::Tier;
use crate::ev::PropRun;
use crate::run_h;
use crate::sym::Sc;
use bacon_sci::differentiate::{derivative, second_derivative};
use num_complex::Complex;

const CB: f64 = 10.0; // coefficient box

fn poly_deriv<S: Sc>(c: &[S], x: S) -> S {
    let d: Vec<S> = (1..c.len()).map(|k| c[k] * S::lit(k as f64)).collect();
    horner(&d, x)
}
fn poly_deriv2<S: Sc>(c: &[S], x: S) -> S {
    let d: Vec<S> = (2..c.len()).map(|k| c[k] * S::lit((k * (k - 1)) as f64)).collect();
    horner(&d, x)
}

/// first derivative: exact for degree <= 4; for degree 5 the error is exactly -h^4 p^(5)/30
fn first<S: Sc>(deg: usize) {
    let c = inputs::<S>("c", deg + 1, -CB, CB);
    let x = S::input("x", -3.0, 3.0);
    let h = S::input("h", 1e-3, 0.5);
    let cc = c.clone();
    let d: S = derivative(move |t: S| horner(&cc, t), x, h);
    let mut exact = poly_deriv(&c, x);
    if deg == 5 {
        // p^(5) = 120 c5 ; predicted leading error term -h^4 p^(5) / 30
        exact = exact - h * h * h * h * c[5] * S::lit(4.0);
    }
    // rounding slack of the native run: eps*|f|/h with |f| <= 6*CB*3^5 and h >= 1e-3
    let tol = S::lit(1e-6);
    S::reach("first");
    S::prove_m("first-derivative-formula", S::b_close(d, exact, tol), S::b_gt((d - exact).sabs(), S::lit(1e-3)));
}

/// second derivative: exact for degree <= 3; for degree 4 the error is exactly +h^2 p^(4)/12
fn second<S: Sc>(deg: usize) {
    let c = inputs::<S>("c", deg + 1, -CB, CB);
    let x = S::input("x", -3.0, 3.0);
    let h = S::input("h", 1e-3, 0.5);
    let cc = c.clone();
    let d: S = second_derivative(move |t: S| horner(&cc, t), x, h);
    let mut exact = poly_deriv2(&c, x);
    if deg == 4 {
        // p^(4) = 24 c4
        exact = exact + h * h * c[4] * S::lit(2.0);
    }
    // native rounding: eps*|f|/h^2 <= 2.2e-16*5e3/1e-6
    let tol = S::lit(1e-4);
    S::reach("second");
    S::prove_m("second-derivative-formula", S::b_close(d, exact, tol), S::b_gt((d - exact).sabs(), S::lit(1e-2)));
}

/// linearity in the function: D(a f + b g) = a D(f) + b D(g) for arbitrary functions f, g (tapes)
fn linear<S: Sc>(second_order: bool) {
    let x = S::input("x", -3.0, 3.0);
    let h = S::input("h", 1e-3, 0.5);
    let a = S::input("a", -2.0, 2.0);
    let b = S::input("b", -2.0, 2.0);
    let f = |t: S| S::tape("f", &[t], -CB, CB);
    let g = |t: S| S::tape("g", &[t], -CB, CB);
    let comb = move |t: S| a * S::tape("f", &[t], -CB, CB) + b * S::tape("g", &[t], -CB, CB);
    let (df, dg, dc): (S, S, S) = if second_order {
        (second_derivative(f, x, h), second_derivative(g, x, h), second_derivative(comb, x, h))
    } else {
        (derivative(f, x, h), derivative(g, x, h), derivative(comb, x, h))
    };
    let tol = S::lit(if second_order { 1e-3 } else { 1e-6 });
    S::reach("linear");
    S::prove("linear-in-the-function", S::b_close(dc, a * df + b * dg, tol));
    // a constant function has zero derivative (weights sum to zero)
    let k = S::input("k", -CB, CB);
    let dk: S = if second_order { second_derivative(move |_t: S| k, x, h) } else { derivative(move |_t: S| k, x, h) };
    S::prove("constant-has-zero-derivative", S::b_close(dk, S::lit(0.0), tol));
}

/// complex-valued polynomial of a real variable: real and imaginary parts are differentiated separately
fn first_complex<S: Sc>(deg: usize) {
    let cr = inputs::<S>("cr", deg + 1, -CB, CB);
    let ci = inputs::<S>("ci", deg + 1, -CB, CB);
    let x = S::input("x", -3.0, 3.0);
    let h = S::input("h", 1e-3, 0.5);
    let (crr, cii) = (cr.clone(), ci.clone());
    let d: Complex<S> = derivative(move |t: S| Complex::new(horner(&crr, t), horner(&cii, t)), x, h);
    let d2: Complex<S> = second_derivative(
        {
            let (crr, cii) = (cr.clone(), ci.clone());
            move |t: S| Complex::new(horner(&crr, t), horner(&cii, t))
        },
        x,
        h,
    );
    S::reach("complex");
    S::prove("complex-first-re", S::b_close(d.re, poly_deriv(&cr, x), S::lit(1e-6)));
    S::prove("complex-first-im", S::b_close(d.im, poly_deriv(&ci, x), S::lit(1e-6)));
    if deg <= 3 {
        S::prove("complex-second-re", S::b_close(d2.re, poly_deriv2(&cr, x), S::lit(1e-4)));
        S::prove("complex-second-im", S::b_close(d2.im, poly_deriv2(&ci, x), S::lit(1e-4)));
    }
    S::control("complex");
}

pub fn run(pr: &mut PropRun, t: &Tier) {
    pr.funcs(&["differentiate::derivative", "differentiate::second_derivative"]);
    pr.bound("polynomial coefficients in [-10,10], x in [-3,3], h in [1e-3,0.5], all symbolic (the whole box is decided at once)");
    pr.bound("degrees 0..5 (first derivative), 0..4 (second); arbitrary functions (tapes) for linearity");
    pr.outside("remainder bound on transcendental functions; rounding of the stencil (real arithmetic on symbolic values)");
    for deg in 0..=5usize {
        run_h!(pr, t.cfg(&format!("C19:first(deg={})", deg)), first, deg);
    }
    for deg in 0..=4usize {
        run_h!(pr, t.cfg(&format!("C19:second(deg={})", deg)), second, deg);
    }
    run_h!(pr, t.cfg("C19:linear(first)"), linear, false);
    run_h!(pr, t.cfg("C19:linear(second)"), linear, true);
    for deg in [2usize, 4] {
        run_h!(pr, t.cfg(&format!("C19:complex(deg={})", deg)), first_complex, deg);
    }
}
