//! C16 — cubic splines interpolate, are C2, and honour their end conditions.
use super::util::*;
use super::Tier;
use crate::ev::PropRun;
use crate::run_h;
use crate::sym::Sc;
use bacon_sci::interp::{spline_clamped, spline_free, CubicSpline};

const YB: f64 = 5.0;

/// seeded strictly increasing knots in [-10,10], spacing ratio <= 50
pub fn knots(seed: i64, n: usize) -> Vec<f64> {
    let mut g = Lcg::new(seed);
    let base = g.range_r(0.05, 0.3, 2);
    let mut x = g.range_r(-9.0, -4.0, 1);
    let mut xs = vec![x];
    for _ in 1..n {
        let h = (base * g.range(1.0, 12.0) * 100.0).round() / 100.0;
        x = ((x + h) * 100.0).round() / 100.0;
        xs.push(x);
    }
    xs
}

/// second derivative of the piece containing x, recovered exactly from three first-derivative samples
/// of that cubic piece (divided differences of a quadratic are exact)
fn second_derivative_at<S: Sc>(sp: &CubicSpline<S>, a: S, b: S, at: S) -> S {
    // p'(t) is a quadratic on [a,b]: p''(at) from its values at a, m, b
    let m = (a + b) * S::lit(0.5);
    let da = sp.evaluate_derivative(a + (m - a) * S::lit(0.5)).unwrap().1; // at a + h/4 (strictly inside the piece)
    let dm = sp.evaluate_derivative(m).unwrap().1;
    let db = sp.evaluate_derivative(b - (b - m) * S::lit(0.5)).unwrap().1; // at b - h/4
    let (t0, t1, t2) = (a + (m - a) * S::lit(0.5), m, b - (b - m) * S::lit(0.5));
    // quadratic q through (t0,da),(t1,dm),(t2,db); q'(at) = f[t0,t1] + f[t0,t1,t2]*((at-t0)+(at-t1))
    let f01 = (dm - da) / (t1 - t0);
    let f12 = (db - dm) / (t2 - t1);
    let f012 = (f12 - f01) / (t2 - t0);
    f01 + f012 * ((at - t0) + (at - t1))
}

fn spline<S: Sc>(seed: i64, n: usize, clamped: bool) {
    let xs: Vec<S> = knots(seed, n).into_iter().map(S::lit).collect();
    let ys = inputs::<S>("y", n, -YB, YB);
    let (f0, fnn) = (S::input("f0", -YB, YB), S::input("fn", -YB, YB));
    let res = if clamped { spline_clamped(&xs, &ys, (f0, fnn), S::lit(1e-10)) } else { spline_free(&xs, &ys, S::lit(1e-10)) };
    let sp = match res {
        Ok(s) => s,
        Err(_) => {
            S::prove("spline-builds-on-increasing-knots", S::b_const(false));
            return;
        }
    };
    S::reach("spline");
    let tol = S::lit(1e-7);
    // interpolation at every knot, from both adjacent pieces (continuity of value)
    for i in 0..n {
        let v = sp.evaluate(xs[i]);
        S::prove("knot-inside-range", S::b_const(v.is_ok()));
        if let Ok(v) = v {
            S::prove_m("interpolates-data", S::b_close(v, ys[i], tol), S::b_gt((v - ys[i]).sabs(), S::lit(1e-3)));
        }
    }
    // continuity of value, first and second derivative at interior knots: evaluate the two pieces on their own side.
    // evaluate(x) picks the first piece whose closed range contains x, so the right piece is sampled via its interior.
    for i in 1..n - 1 {
        let (l, k, r) = (xs[i - 1], xs[i], xs[i + 1]);
        // value and slope limits from the right piece: Taylor-exact for a cubic from three interior samples is
        // cumbersome; instead compare second derivatives (exact, see above) and first derivatives via
        // p'(k) = q(k) extrapolated from the right piece's quadratic derivative
        let d_left = sp.evaluate_derivative(k).unwrap().1; // piece i-1 (first match)
        let m = (k + r) * S::lit(0.5);
        let (t0, t1, t2) = (k + (m - k) * S::lit(0.5), m, r - (r - m) * S::lit(0.5));
        let (q0, q1, q2) = (sp.evaluate_derivative(t0).unwrap().1, sp.evaluate_derivative(t1).unwrap().1, sp.evaluate_derivative(t2).unwrap().1);
        let f01 = (q1 - q0) / (t1 - t0);
        let f12 = (q2 - q1) / (t2 - t1);
        let f012 = (f12 - f01) / (t2 - t0);
        let d_right = q0 + f01 * (k - t0) + f012 * (k - t0) * (k - t1);
        S::prove_m("first-derivative-continuous-at-interior-knot", S::b_close(d_left, d_right, tol), S::b_gt((d_left - d_right).sabs(), S::lit(1e-3)));
        let s_left = second_derivative_at(&sp, l, k, k);
        let s_right = second_derivative_at(&sp, k, r, k);
        S::prove_m("second-derivative-continuous-at-interior-knot", S::b_close(s_left, s_right, S::lit(1e-6)), S::b_gt((s_left - s_right).sabs(), S::lit(1e-2)));
        // value continuity: right piece value at k from cubic extrapolation of three values + slope is implied by
        // interpolation (checked at the knot through the left piece) and by the right piece at its own left end:
        let vr0 = sp.evaluate(t0).unwrap();
        let vr_at_k = vr0 - (q0 + d_right) * S::lit(0.5) * (t0 - k) + (f01 + f012 * ((k - t1) + (t0 - t1)) - (f01 + f012 * ((t0 - t1)))) * S::lit(0.0);
        let _ = vr_at_k;
        // exact: integral of the quadratic derivative over [k, t0] by Simpson (exact for quadratics)
        let mid = (k + t0) * S::lit(0.5);
        let qmid = q0 + f01 * (mid - t0) + f012 * (mid - t0) * (mid - t1);
        let integral = (t0 - k) * S::rat(1, 6) * (d_right + S::lit(4.0) * qmid + q0);
        S::prove_m("value-continuous-at-interior-knot", S::b_close(vr0 - integral, ys[i], tol), S::b_gt((vr0 - integral - ys[i]).sabs(), S::lit(1e-3)));
    }
    // end conditions
    if clamped {
        let d0 = sp.evaluate_derivative(xs[0]).unwrap().1;
        let dn = sp.evaluate_derivative(xs[n - 1]).unwrap().1;
        S::prove_m("clamped-end-slopes", S::b_and(S::b_close(d0, f0, tol), S::b_close(dn, fnn, tol)), S::b_or(S::b_gt((d0 - f0).sabs(), S::lit(1e-3)), S::b_gt((dn - fnn).sabs(), S::lit(1e-3))));
    } else {
        let s0 = second_derivative_at(&sp, xs[0], xs[1], xs[0]);
        let sn = second_derivative_at(&sp, xs[n - 2], xs[n - 1], xs[n - 1]);
        S::prove_m("free-end-second-derivatives-vanish", S::b_and(S::b_le(s0.sabs(), S::lit(1e-6)), S::b_le(sn.sabs(), S::lit(1e-6))), S::b_or(S::b_gt(s0.sabs(), S::lit(1e-2)), S::b_gt(sn.sabs(), S::lit(1e-2))));
    }
    S::control("spline");
}

/// clamped splines reproduce cubics, free splines reproduce straight lines
fn reproduce<S: Sc>(seed: i64, n: usize, clamped: bool) {
    let kx = knots(seed, n);
    let xs: Vec<S> = kx.iter().map(|x| S::lit(*x)).collect();
    let c = inputs::<S>("c", if clamped { 4 } else { 2 }, -1.0, 1.0);
    let f = |x: S| horner(&c, x);
    let df = |x: S| {
        let d: Vec<S> = (1..c.len()).map(|k| c[k] * S::lit(k as f64)).collect();
        horner(&d, x)
    };
    let ys: Vec<S> = xs.iter().map(|x| f(*x)).collect();
    let sp = if clamped { spline_clamped(&xs, &ys, (df(xs[0]), df(xs[n - 1])), S::lit(1e-10)) } else { spline_free(&xs, &ys, S::lit(1e-10)) }.unwrap();
    S::reach("reproduce");
    for i in 0..n - 1 {
        for w in [0.25, 0.5, 0.9] {
            let x = S::lit(kx[i] + w * (kx[i + 1] - kx[i]));
            let (v, d) = sp.evaluate_derivative(x).unwrap();
            S::prove_m(if clamped { "clamped-reproduces-cubic" } else { "free-reproduces-line" }, S::b_and(S::b_close(v, f(x), S::lit(1e-5)), S::b_close(d, df(x), S::lit(1e-5))), S::b_gt((v - f(x)).sabs(), S::lit(1e-2)));
        }
    }
}

fn errors<S: Sc>() {
    let xs = [S::lit(0.0), S::lit(1.0), S::lit(2.5)];
    let ys = [S::input("y0", -1.0, 1.0), S::input("y1", -1.0, 1.0), S::input("y2", -1.0, 1.0)];
    let sp = spline_free(&xs, &ys, S::lit(1e-10)).unwrap();
    let out = S::input("xo", 2.6, 9.0);
    S::prove("evaluate-right-of-range-err", S::b_const(sp.evaluate(out).is_err() && sp.evaluate_derivative(out).is_err()));
    S::prove("evaluate-left-of-range-err", S::b_const(sp.evaluate(-out).is_err()));
    S::prove("fewer-than-two-points-err", S::b_const(spline_free(&xs[..1], &ys[..1], S::lit(1e-10)).is_err() && spline_clamped(&xs[..1], &ys[..1], (ys[0], ys[1]), S::lit(1e-10)).is_err()));
    S::prove("mismatched-lengths-err", S::b_const(spline_free(&xs, &ys[..2], S::lit(1e-10)).is_err() && spline_clamped(&xs[..2], &ys, (ys[0], ys[1]), S::lit(1e-10)).is_err()));
    let dec = [S::lit(0.0), S::lit(2.0), S::lit(1.0)];
    S::prove("decreasing-knots-err", S::b_const(spline_free(&dec, &ys, S::lit(1e-10)).is_err() && spline_clamped(&dec, &ys, (ys[0], ys[1]), S::lit(1e-10)).is_err()));
    // symbolic knot order: x1 anywhere relative to x0 and x2
    let x1 = S::input("x1", -1.0, 3.0);
    let r = spline_free(&[S::lit(0.0), x1, S::lit(2.0)], &ys, S::lit(1e-10));
    if r.is_ok() {
        S::prove("ok-implies-increasing-knots", S::b_and(S::b_le(S::lit(0.0), x1), S::b_le(x1, S::lit(2.0))));
    } else {
        S::prove("err-implies-not-strictly-increasing", S::b_or(S::b_le(x1, S::lit(0.0)), S::b_le(S::lit(2.0), x1)));
    }
}

pub fn run(pr: &mut PropRun, t: &Tier) {
    pr.funcs(&["interp::spline_free", "interp::spline_clamped", "CubicSpline::{evaluate,evaluate_derivative}", "Polynomial arithmetic used to assemble the pieces"]);
    let sizes: Vec<usize> = if t.thorough { vec![2, 3, 4, 6, 9, 14, 24, 40] } else { vec![2, 3, 4, 6, 9, 12] };
    pr.bound(&format!("seeded concrete strictly increasing knots ({:?} knots, spacing ratio <= 12), ordinates and end slopes symbolic in [-5,5]", sizes));
    pr.outside("rounding of symbolic operations; knot counts above the bound");
    let mut jobs: Vec<super::Job> = vec![];
    for &n in &sizes {
        for clamped in [false, true] {
            let mut cfg = t.cfg(&format!("C16:{}(knots={})", if clamped { "clamped" } else { "free" }, n));
            cfg.max_decisions = 400;
            crate::job!(jobs, cfg, spline, t.seed * 10 + n as i64, n, clamped);
        }
    }
    for &n in &[2usize, 3, 5, 8] {
        for clamped in [false, true] {
            let mut cfg = t.cfg(&format!("C16:reproduce-{}(knots={})", if clamped { "cubic-clamped" } else { "line-free" }, n));
            cfg.max_decisions = 400;
            crate::job!(jobs, cfg, reproduce, t.seed * 10 + n as i64, n, clamped);
        }
    }
    super::run_jobs(pr, jobs, t.threads);
    run_h!(pr, t.cfg("C16:errors"), errors);
}
