#!/bin/bash
# usage: seed_eval.sh <property id> <source dir with patch.diff demo.rs meta.json> <seed name>
# 1) confirms in a scratch worktree that the change compiles, passes the test suite, and that the demo fails with
#    it and passes without it; 2) applies it to /repo, runs the property's quick check, undoes it.
set -u
ID=$1; SRC=$2; NAME=$3
W=/tmp/wt/verify_$NAME
OUT=/verif/seeded/$NAME
mkdir -p $OUT
git -C /repo worktree remove --force $W >/dev/null 2>&1
git -C /repo worktree add -q --detach $W HEAD || exit 2
cd $W
export CARGO_NET_OFFLINE=true
if ! git apply --check $SRC/patch.diff 2>/dev/null; then echo "PATCH-DOES-NOT-APPLY"; git -C /repo worktree remove --force $W; exit 3; fi
git apply $SRC/patch.diff
T=$(cargo test --offline 2>&1 | grep -E "^test result" | head -2 | tr '\n' ' ')
mkdir -p tests; cp $SRC/demo.rs tests/demo.rs
D1=$(cargo test --offline --test demo 2>&1 | grep -E "^test result" | head -1)
git apply -R $SRC/patch.diff
D0=$(cargo test --offline --test demo 2>&1 | grep -E "^test result" | head -1)
cd /verif
git -C /repo worktree remove --force $W
echo "suite-with-mutation: $T"; echo "demo-with-mutation: $D1"; echo "demo-without: $D0"
git -C /repo apply $SRC/patch.diff || { echo "cannot apply to /repo"; exit 3; }
./check $ID > $OUT/check_output.txt 2>&1; EC=$?
git -C /repo checkout -- .
echo "check-exit: $EC"; grep -E "^VIOLATION|^RESULT" $OUT/check_output.txt | head -3 | cut -c1-200
cp $SRC/patch.diff $SRC/demo.rs $OUT/ 2>/dev/null
python3 - "$ID" "$NAME" "$SRC" "$T" "$D1" "$D0" "$EC" <<'PY'
import json,sys
pid,name,src,t,d1,d0,ec=sys.argv[1:8]
try: meta=json.load(open(src+'/meta.json'))
except Exception: meta={}
meta.update({"property":pid,"name":name,"confirmed":{"test_suite_with_mutation":t.strip(),"demo_with_mutation":d1.strip(),"demo_without_mutation":d0.strip()},"quick_check_exit":int(ec),"detected":int(ec)==1,"ran":"seed_eval.sh: scratch worktree (apply, cargo test, demo fails; revert, demo passes); then git -C /repo apply, ./check %s, git checkout"%pid})
json.dump(meta,open('/verif/seeded/%s/meta.json'%name,'w'),indent=1)
PY
